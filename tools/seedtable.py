#!/usr/bin/env python3
"""seedtable.py: prints the markdown table of DESIGN.md 13.8 from seeded/*/meta.json (and, when present, the
harness column from seeded/harness.log written by tools/seedharness.sh)."""
import json,os,re
h={}
if os.path.exists('/verif/seeded/harness.log'):
    for l in open('/verif/seeded/harness.log'):
        m=re.match(r'^(C\d\d[a-z]?): (.*)$',l)
        if m: h[m.group(1)]=m.group(2)
print("| seed | needs, to manifest | caught by (first failing obligation) | replay harness |")
print("|---|---|---|---|")
for d in sorted(os.listdir('/verif/seeded')):
    p='/verif/seeded/%s/meta.json'%d
    if not os.path.exists(p): continue
    m=json.load(open(p))
    det=[]
    for c,v in m['detected_by'].items():
        if v['failed_obligations']: det.append("`%s`: `%s`"%(c,v['failed_obligations'][0]))
        else: det.append("`%s`: **not detected**"%c)
    r=h.get(d,'')
    if 'REPLAY-FAIL' in r:
        r='failing input found'
    elif 'no failure' in r: r='no failure in its sweep'
    elif r=='': r='—'
    print("| %s | %s | %s | %s |"%(d,m['needs_to_manifest'].replace('|','\\|'),"; ".join(det),r.replace('|','\\|')))
