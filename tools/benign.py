#!/usr/bin/env python3
"""benign edits: each must compile and every listed check must stay green"""
import subprocess, os, sys, time
ENV=dict(os.environ, GOFLAGS="-mod=mod", GOPROXY="off", GOSUMDB="off", GOTOOLCHAIN="local", VERIF_NO_EVIDENCE="1", VERIF_NO_REPLAY="1")
def sh(cmd): return subprocess.run(cmd, shell=True, capture_output=True, text=True, env=ENV)
assert sh("git -C /repo status --porcelain").stdout==""
cases=[
 ("incr-style","prover/circuit_utils.go","for i := 1; i < len(gadget.Proof); i++ {","for i := 1; i < len(gadget.Proof); i += 1 {",["C01"]),
 ("log-message","server/server.go",'Msg("received prove request")','Msg("prove request received")',["C09"]),
 ("reorder-independent","prover/insertion_proving_system.go","	idComms := make([]frontend.Variable, ps.BatchSize)\n	for i := 0; i < int(ps.BatchSize); i++ {\n		idComms[i] = params.IdComms[i]\n	}\n	proofs := make([][]frontend.Variable, ps.BatchSize)","	proofs := make([][]frontend.Variable, ps.BatchSize)\n	idComms := make([]frontend.Variable, ps.BatchSize)\n	for i := 0; i < int(ps.BatchSize); i++ {\n		idComms[i] = params.IdComms[i]\n	}",["C07"]),
 ("rename-untracked-local","prover/marshal.go","	proofBytes := buf.Bytes()\n	proofJson := ProofJSON{}","	proofBytes := buf.Bytes()\n	var proofJson ProofJSON",["C10"]),
 ("extra-comment-and-blank","poseidon_tree/poseidon_tree.go","func (tree *PoseidonTree) Root() big.Int {","// Root returns the current root hash.\n\nfunc (tree *PoseidonTree) Root() big.Int {",["C18"]),
 ("helper-without-loop","server/server.go","	w.WriteHeader(http.StatusOK)\n	_, err = w.Write(responseBytes)\n","	err = writeOK(w, responseBytes)\n",["C09"]),
 ("early-return-style","prover/marshal.go","	_, ok := i.SetString(s, 0)\n	if !ok {\n		return fmt.Errorf(\"invalid number: %s\", s)\n	}\n	return nil","	if _, ok := i.SetString(s, 0); !ok {\n		return fmt.Errorf(\"invalid number: %s\", s)\n	}\n	return nil",["C16"]),
 ("const-for-literal","prover/keccak/keccak.go","	tmp[len(P)-1] = 1\n","	const finalBit = 1\n	tmp[len(P)-1] = finalBit\n",["C04"]),
]
extra={"helper-without-loop":("server/server.go","\nfunc writeOK(w http.ResponseWriter, body []byte) error {\n	w.WriteHeader(http.StatusOK)\n	_, err := w.Write(body)\n	return err\n}\n")}
for name,path,old,new,checks in cases:
    if len(sys.argv)>1 and sys.argv[1] not in name: continue
    src=open('/repo/'+path).read()
    if old not in src: print(name,"PATTERN-NOT-FOUND"); continue
    src2=src.replace(old,new,1)
    if name in extra: src2+=extra[name][1]
    open('/repo/'+path,'w').write(src2)
    try:
        b=sh("cd /repo && go build ./... 2>&1")
        if b.returncode!=0: print(name,"NO-COMPILE",b.stdout[-300:]); continue
        for c in checks:
            t0=time.time()
            out=sh("cd /verif && ./engine/bin/govc check %s 2>&1"%c).stdout
            v=[x.split('obligation=')[1].split()[0] for x in out.splitlines() if x.startswith('VIOLATION')]
            vac=[x for x in out.splitlines() if x.startswith('VACUITY') or 'MACHINERY' in x]
            print("%-26s %s %-8s %3.0fs %s"%(name,c,"GREEN" if not v and not vac else "ALARM",time.time()-t0,(v+vac)[:2]),flush=True)
    finally:
        sh("git -C /repo checkout -- .")
