#!/usr/bin/env python3
"""Self-test corpus: small property-breaking edits (one per line of /verif/selftest/mutants.tsv) applied to /repo one at
a time; each must still compile and must make its property's check report a violation. /repo is restored after each.
usage: tools/mutants.py [filter-substring]   (requires a clean /repo)"""
import subprocess, sys, re, os, json, time
ENV=dict(os.environ, GOFLAGS="-mod=mod", GOPROXY="off", GOSUMDB="off", GOTOOLCHAIN="local", VERIF_NO_EVIDENCE="1", VERIF_NO_REPLAY="1", VERIF_NO_RETRY="1")
def sh(cmd, **kw): return subprocess.run(cmd, shell=True, capture_output=True, text=True, env=ENV, **kw)
assert sh("git -C /repo status --porcelain").stdout=="", "/repo not clean"
flt=sys.argv[1] if len(sys.argv)>1 else ""
rows=[]
for l in open('/verif/selftest/mutants.tsv'):
    l=l.rstrip('\n')
    if not l or l.startswith('#'): continue
    name,props,path,old,new=l.split('\t')
    old=old.replace('\\n','\n').replace('\\t','\t'); new=new.replace('\\n','\n').replace('\\t','\t')
    rows.append((name,props.split(','),path,old,new))
res=[]
for name,props,path,old,new in rows:
    if flt and flt not in name and flt not in ",".join(props): continue
    src=open('/repo/'+path).read()
    if src.count(old)<1:
        res.append((name,"PATTERN-NOT-FOUND","")); print(name,"PATTERN-NOT-FOUND"); continue
    open('/repo/'+path,'w').write(src.replace(old,new,1))
    try:
        b=sh("cd /repo && go build ./... 2>&1")
        if b.returncode!=0:
            res.append((name,"NO-COMPILE",b.stdout[-200:])); print(name,"NO-COMPILE",b.stdout[-200:]); continue
        det=[]
        t0=time.time()
        for p in props:
            out=sh("cd /verif && ./engine/bin/govc check %s -timeout 8 2>&1"%p).stdout
            v=[x.split('obligation=')[1].split()[0] for x in out.splitlines() if x.startswith('VIOLATION')]
            det.append((p,v[:2]))
        ok=any(v for _,v in det)
        res.append((name,"DETECTED" if ok else "MISSED",det))
        print("%-34s %-9s %4.0fs %s"%(name,"DETECTED" if ok else "MISSED",time.time()-t0,"; ".join("%s:%s"%(p,v[0] if v else "-") for p,v in det)), flush=True)
    finally:
        sh("git -C /repo checkout -- .")
json.dump(res,open('/verif/work/mutants-last.json','w'),indent=1)
print("detected %d, missed %d, other %d"%(sum(r[1]=="DETECTED" for r in res),sum(r[1]=="MISSED" for r in res),sum(r[1] not in("DETECTED","MISSED") for r in res)))
