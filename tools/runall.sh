#!/bin/bash
# runs every claimed check's quick command on the current tree, validates evidence
cd /verif
if [ -n "$(git -C /repo status --porcelain)" ]; then echo "WARNING: /repo working tree not clean"; fi
ids=$(python3 -c "import json;print(' '.join(c['property_id'] for c in json.load(open('MANIFEST.json'))['checks']))")
fail=0
for id in $ids; do
  out=$(./check $id --tier ${1:-quick} 2>&1); rc=$?
  echo "$id rc=$rc $(echo "$out" | grep '^property' )"
  echo "$out" | grep -E '^(VIOLATION|VACUITY|KNOWN-FINDING|MACHINERY)' | head -5
  if [ $rc -ne 0 ]; then fail=1; echo "$out" | tail -15; fi
done
python3-vt - <<'PY'
import json,jsonschema,glob
sch=json.load(open('/root/.vp/EVIDENCE.schema.json'))
for c in json.load(open('/verif/MANIFEST.json'))['checks']:
    e=json.load(open(c['evidence_file'])); jsonschema.validate(e,sch)
    cov=e['coverage']
    if e['level']=='proof' and cov['obligations']!=cov['discharged']: print('EVIDENCE MISMATCH',c['property_id'])
jsonschema.validate(json.load(open('/verif/MANIFEST.json')),json.load(open('/root/.vp/MANIFEST.schema.json')))
print('evidence+manifest valid')
PY
exit $fail
