#!/bin/bash
# runs every claimed check's quick command on the current tree (RUNALL_JOBS at a time, default 2), validates evidence
# usage: tools/runall.sh [quick|thorough]
cd /verif
if [ -n "$(git -C /repo status --porcelain)" ]; then echo "WARNING: /repo working tree not clean"; fi
export GOFLAGS=-mod=mod GOPROXY=off GOSUMDB=off GOTOOLCHAIN=local
if [ ! -x engine/bin/govc ] || [ -n "$(find engine -name '*.go' -newer engine/bin/govc 2>/dev/null | head -1)" ]; then
  (cd engine && go build -o bin/govc .) || { echo "MACHINERY FAILURE: engine build failed"; exit 2; }
fi
ids=$(python3 -c "import json;print(' '.join(c['property_id'] for c in json.load(open('MANIFEST.json'))['checks']))")
tier=${1:-quick}
rm -f /tmp/runall.fail
run1() {
  id=$1; tier=$2
  out=$(./check $id --tier $tier 2>&1); rc=$?
  {
    echo "$id rc=$rc $(echo "$out" | grep '^property' )"
    echo "$out" | grep -E '^(VIOLATION|VACUITY|KNOWN-FINDING|MACHINERY)' | head -5
    if [ $rc -ne 0 ]; then echo "$out" | tail -15; touch /tmp/runall.fail; fi
  } | cat
}
export -f run1
printf "%s\n" $ids | xargs -P ${RUNALL_JOBS:-2} -I{} bash -c "run1 {} $tier"
python3-vt - <<'PY'
import json,jsonschema,glob
sch=json.load(open('/root/.vp/EVIDENCE.schema.json'))
for c in json.load(open('/verif/MANIFEST.json'))['checks']:
    e=json.load(open(c['evidence_file'])); jsonschema.validate(e,sch)
    cov=e['coverage']
    if e['level']=='proof' and cov['obligations']!=cov['discharged']: print('EVIDENCE MISMATCH',c['property_id'])
jsonschema.validate(json.load(open('/verif/MANIFEST.json')),json.load(open('/root/.vp/MANIFEST.schema.json')))
print('evidence+manifest valid')
PY
[ -f /tmp/runall.fail ] && exit 1
exit 0
