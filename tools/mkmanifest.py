#!/usr/bin/env python3
# Regenerates /verif/MANIFEST.json from the table below (keeps it schema-valid).
import json, subprocess, sys
props=[json.loads(l) for l in open('/verif/properties.jsonl')]
ids=[p['id'] for p in props]
API="assumed frontend.API contract table (assumed/gnark_api.ctr): gnark's R1CS builder/solver implement it; govc engine; SMT solvers"
claimed={
 "C01":("proof","Every function between the property and the code (ProofRound, VerifyProof, InsertionRound, InsertionProof) carries a contract; VCs generated from the working tree are discharged for symbolic depth, batch, inputs and prover-chosen hint outputs (A-mode: soundness, H-mode: completeness).","§7 C01",API),
 "C02":("proof","DeletionRound/DeletionProof (+VerifyProof/ProofRound) under contract with the running-root recursion of the property as postcondition; both the dishonest-prover and the honest-solver reading are discharged for symbolic depth<=31, batch and inputs.","§7 C02",API),
 "C05":("proof","sbox, mds, halfRound, fullRound, poseidon, Poseidon1, Poseidon2 proved equal to the HADES specification (spec/02_poseidon.smt2) over the repository's tables for all inputs, widths 2 and 3; table values themselves are abstract (tied to the reference by PIT in the thorough tier when built).","§7 C05",API+"; table values = reference parameters not decided by SMT"),
 "C03":("proof","Both circuit Define functions under contract: loop invariants pin every bit of the hashed message to the canonical packing of the property (pack.insBit / pack.delBit), the 32-bit index bound and the reducedness of every 256-bit field (via the C06 contracts); public input = beval(Keccak(msg)) mod r in A-mode (soundness) and H-mode (completeness). Keccak itself is the contract of KeccakGadget (C04).","§7 C03",API+"; KeccakGadget contract (trusted until C04 is discharged); spec axioms keccak_ext, digest_bool"),
 "C08":("proof","ComputeInputHashInsertion/Deletion under contract: the hashed byte string is proved equal, byte for byte and in length, to the fixed-width big-endian packing of the property for all in-range values and all batch sizes (loop invariant over the commitments); failures are replayed on the real code against an independent packing + x/crypto Keccak. The defect found (unpadded roots) was repaired by a fix: commit.","§7 C08","assumed contracts of math/big (Bytes, SetBytes), bytes.Buffer, encoding/binary.Write, iden3 keccak256.Hash = Keccak-256 (assumed/stdlib.ctr); spec axioms minLen_def, keccakb_ext; gen-test-params wiring in main.go not under contract yet"),
 "C10":("proof","Proof.MarshalJSON / UnmarshalJSON, toHex, fromHex under contract: the document lists hex(be(raw[32i..32i+32))) in EVM order ar0,ar1,bs00,bs01,bs10,bs11,krs0,krs1 and the decoder hands ReadFrom exactly the 32-byte big-endian form of every coordinate (so decode(encode(p)) has p's raw bytes); failures are replayed on the real code with synthetic proofs. The defect found (left-aligned short coordinates) was repaired by a fix: commit.","§7 C10","assumed contracts: gnark Proof.WriteRawTo/ReadFrom raw layout and inverse, math/big Text/SetString/Bytes/FillBytes, encoding/json on the mirror struct (assumed/stdlib.ctr); spec axioms hex_roundtrip, json_proof_roundtrip"),
 "C16":("proof","toHex, fromHex and the four parameter Marshal/UnmarshalJSON methods under contract with loop invariants over commitments and ragged proofs: every field and element of the document is hex(value) and every decoded field is num(string), lengths preserved (empty arrays included), any non-number makes decoding return an error; with the assumed hex round-trip axiom this gives decode(encode(p)) = p.","§7 C16","assumed contracts of encoding/json on the string-typed mirror structs (accessor view, uint32 range rejection), math/big Text/SetString (assumed/stdlib.ctr); spec axiom hex_roundtrip"),
 "C07":("proof","ValidateShape (exact iff), ProveInsertion/Deletion (shape check before any indexing — all index expressions have bounds obligations; witness assembled field-for-field and element-for-element from the parameters, ghost-asserted at the definition of `assignment`; error paths return no proof; the proof returned is groth16.Prove(ps.ConstraintSystem, ps.ProvingKey, witness)), VerifyInsertion/Deletion (public witness built from the hash argument; result is exactly groth16.Verify's), Setup*/BuildR1CS* (dimensions stored in order, keys from Setup of the circuit compiled for exactly (depth,batch), circuit handed to frontend.Compile satisfies Define's shape precondition). The crypto half of the property is assumed.","§7 C07","ASSUMED, not decided: Groth16 completeness/soundness/key separation of gnark v0.8.0, frontend.NewWitness field mapping and reduction mod r, frontend.Compile (assumed/gnark_backend.ctr); circuits accept exactly valid batches = C01-C03"),
 "C06":("proof","ReducedModRCheck, ToReducedBigEndian, FromBinaryBigEndian proved for a symbolic field modulus and symbolic byte-aligned width: acceptance iff canonical representative, big-endian layout, recomposition value.","§7 C06",API),
}
reasons={}
checks=[]
for i in ids:
    if i in claimed:
        cat,text,ref,note=claimed[i]
        checks.append({"property_id":i,"quick_cmd":f"./check {i} --tier quick","thorough_cmd":f"./check {i} --tier thorough",
          "evidence_file":f"/verif/evidence/{i}.json","replay_cmd_template":"cat {path}","engine":"govc",
          "level_claimed":{"category":cat,"text":text,"design_ref":ref},"level_note":note,
          "technique":"contract-based deductive verification: weakest-precondition style VCs over the typed Go AST (govc), discharged by z3/cvc5"})
na=[{"property_id":i,"reason":reasons.get(i,"check not built yet (engine under construction); see DESIGN.md")} for i in ids if i not in claimed]
commits=subprocess.run("git -C /repo log --format=%H --grep='^verif:' ",shell=True,capture_output=True,text=True).stdout.split()
m={"version":1,
"setup_cmd":"cd /verif/engine && GOFLAGS=-mod=mod GOPROXY=off GOSUMDB=off GOTOOLCHAIN=local go build -o /verif/engine/bin/govc .",
"hooks":{"guard":"verif","enable":"contracts live in comment-only contracts_verif.go files guarded by //go:build verif; checks load /repo with -tags verif","baseline_off_cmd":"cd /repo && go test -vet=off -count=1 -timeout 25m ./...","source_commits":commits,"add_only":True},
"engines":[{"name":"govc","path":"/verif/engine","serves_properties":sorted(claimed),"kind_free_text":"VC generator over the typed Go AST (go/packages + go/types) with contracts in //@ comments; obligations discharged by z3 4.8.12 / z3 5.1.0 / cvc5 1.0.3 raced per obligation"}],
"checks":checks,"not_applicable":na}
json.dump(m,open('/verif/MANIFEST.json','w'),indent=1)
print("claimed",sorted(claimed))
