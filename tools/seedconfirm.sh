#!/bin/bash
# seedconfirm.sh <Cnn> <demo-file-relative-to-out> <package-dir-for-demo> <test-run-regex>
# Confirms a seeded change in its scratch worktree /tmp/seed/<Cnn>: builds, runs the stable suite with the change,
# runs the demonstration with and without the change; copies patch, demo and a meta.json into /verif/seeded/<Cnn>/.
set -u
id=$1; demo=$2; pkg=$3; run=$4
wt=/tmp/seed/$id
export GOFLAGS=-mod=mod GOPROXY=off GOSUMDB=off GOTOOLCHAIN=local
demoflags=${SEED_DEMO_GOFLAGS:-$GOFLAGS}
cd $wt || exit 2
git checkout -q -- . 2>/dev/null; find . -name '*_verif.go' -delete
git apply out/patch.diff || { echo "patch does not apply"; exit 2; }
build=fail; go build ./... && build=ok
suite_full=$(go test -vet=off -count=1 -timeout 25m ./... 2>&1)
# the three root-package tests that bind fixed ports are flaky under load: a failing root package is re-run alone
if echo "$suite_full" | grep -q -E "^FAIL\s+worldcoin/gnark-mbu\s"; then
  for k in 1 2 3; do
    root=$(go test -vet=off -count=1 -timeout 25m . 2>&1)
    echo "$root" | grep -q -E "^ok\s" && { suite_full=$(echo "$suite_full" | grep -v -E "^(--- FAIL|FAIL)"); suite_full="$suite_full
root package re-run alone: ok (attempt $k)"; break; }
  done
fi
suite=$(echo "$suite_full" | grep -E "^(--- FAIL|--- PASS|ok|FAIL|root package)" | tail -25)
stable_fail=$(echo "$suite" | grep -E "^--- FAIL" | grep -v -E "TestInsertionHappyPath|TestInsertionWrongInput|TestWrongMethod" | head -5)
if [[ $demo == *.sh ]]; then
  # shell demonstration: exit status 0 = property observed to hold
  bash out/$demo > /tmp/seed/$id.with.log 2>&1; with_rc=$?
  git apply -R out/patch.diff
  bash out/$demo > /tmp/seed/$id.without.log 2>&1; w=$?
  without_ok=0; [ $w -eq 0 ] && without_ok=1
  git apply out/patch.diff
else
cp out/$demo $pkg/zz_seed_demo_test.go
with=$(GOFLAGS="$demoflags" go test -vet=off -count=1 -timeout 20m -run "$run" ./$pkg/ 2>&1 | tail -8)
with_rc=$(echo "$with" | grep -c -E "^(FAIL|--- FAIL)")
git apply -R out/patch.diff
without=$(GOFLAGS="$demoflags" go test -vet=off -count=1 -timeout 20m -run "$run" ./$pkg/ 2>&1 | tail -5)
without_ok=$(echo "$without" | grep -c -E "^ok")
rm -f $pkg/zz_seed_demo_test.go
git apply out/patch.diff
fi
mkdir -p /verif/seeded/$id
cp out/patch.diff /verif/seeded/$id/patch.diff
cp out/$demo /verif/seeded/$id/$(basename $demo)
cp out/NOTES.md /verif/seeded/$id/NOTES.md 2>/dev/null
python3 - "$id" "$build" "$with_rc" "$without_ok" "$pkg" "$run" "$demo" <<PY
import json,sys
id,build,with_rc,without_ok,pkg,run,demo=sys.argv[1:]
meta={"property":id,"build":build,"demo_fails_with_change":int(with_rc)>0,"demo_passes_without_change":int(without_ok)>0,
 "demo":{"file":demo.split('/')[-1],"copy_into":pkg,"run":"go test -vet=off -count=1 -run '%s' ./%s/"%(run,pkg)},
 "suite_with_change_tail":"""$suite""","stable_failures":"""$stable_fail"""}
json.dump(meta,open('/verif/seeded/%s/confirm.json'%id,'w'),indent=1)
print(json.dumps({k:meta[k] for k in ['property','build','demo_fails_with_change','demo_passes_without_change','stable_failures']}))
PY
