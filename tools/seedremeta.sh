#!/bin/bash
# seedremeta.sh <ids...>: re-runs tools/seedmeta.py for recorded seeds with the needs text and check list already in meta.json
# (after contract files moved: obligation names carry contract line numbers)
cd /verif
for id in "$@"; do
  needs=$(python3 -c "import json;print(json.load(open('seeded/$id/meta.json'))['needs_to_manifest'])")
  checks=$(python3 -c "import json;print(' '.join(json.load(open('seeded/$id/meta.json'))['detected_by'].keys()))")
  python3 tools/seedmeta.py $id "$needs" $checks | tail -1
done
