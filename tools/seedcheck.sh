#!/bin/bash
# seedcheck.sh <Cnn> [checks...]: applies /tmp/seed/<Cnn>/out/patch.diff (or /verif/seeded/<Cnn>/patch.diff) to /repo, runs checks, reverts.
id=$1; shift
checks=${@:-$id}
p=/verif/seeded/$id/patch.diff; [ -f $p ] || p=/tmp/seed/$id/out/patch.diff
[ -z "$(git -C /repo status --porcelain)" ] || { echo "/repo not clean"; exit 2; }
git -C /repo apply $p || exit 2
cd /verif
for c in $checks; do
  out=$(VERIF_NO_EVIDENCE=1 ./engine/bin/govc check $c 2>&1)
  echo "== $c on seed $id: $(echo "$out" | grep -c '^VIOLATION') violations; $(echo "$out" | grep '^property' | cut -c1-90)"
  echo "$out" | grep -E '^VIOLATION|^load|MACHINERY|VACUITY' | awk '{print "   ",$1,$4,$5}' | head -4
done
git -C /repo apply -R $p 2>/dev/null || git -C /repo checkout -- .
git -C /repo status --short
