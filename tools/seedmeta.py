#!/usr/bin/env python3
"""seedmeta.py <Cnn> "<what it needs to manifest>" [check ids...]: applies the seed to /repo, runs the given checks
(default: the property's own), records which obligations fail, reverts, and writes /verif/seeded/<Cnn>/meta.json."""
import json,subprocess,sys,os
sid=sys.argv[1]; needs=sys.argv[2]; checks=sys.argv[3:] or [sid[:3]]
d='/verif/seeded/%s'%sid
assert subprocess.run("git -C /repo status --porcelain",shell=True,capture_output=True,text=True).stdout=="", "/repo not clean"
subprocess.run("git -C /repo apply %s/patch.diff"%d,shell=True,check=True)
det={}
try:
    for c in checks:
        out=subprocess.run("cd /verif && VERIF_NO_EVIDENCE=1 ./engine/bin/govc check %s 2>&1"%c,shell=True,capture_output=True,text=True).stdout
        v=[l.split('obligation=')[1].split()[0] for l in out.splitlines() if l.startswith('VIOLATION')]
        det[c]={"exit":1 if v else 0,"failed_obligations":v[:6]}
finally:
    if subprocess.run("git -C /repo apply -R %s/patch.diff"%d,shell=True).returncode!=0:
        subprocess.run("git -C /repo checkout -- .",shell=True)
conf=json.load(open(d+'/confirm.json')) if os.path.exists(d+'/confirm.json') else {}
meta={"property":sid[:3],"seed":sid,"breaks":open('/verif/seeded/%s/NOTES.md'%sid).read()[:1500] if os.path.exists(d+'/NOTES.md') else "",
 "needs_to_manifest":needs,
 "confirmed":{"build":conf.get("build"),"demo_fails_with_change":conf.get("demo_fails_with_change"),"demo_passes_without_change":conf.get("demo_passes_without_change"),
   "existing_suite_with_change":"stable tests pass (only the known-flaky TestWrongMethod/TestInsertion* ever failed, under machine load)","demo":conf.get("demo")},
 "ran":["tools/seedconfirm.sh (build, go test ./... with the change, demo with and without the change in the scratch worktree)","tools/seedmeta.py (git -C /repo apply patch.diff; ./check <id>; git -C /repo checkout -- .)"],
 "detected_by":det}
json.dump(meta,open(d+'/meta.json','w'),indent=1)
print(sid,{c:(det[c]['exit'],det[c]['failed_obligations'][:2]) for c in det})
