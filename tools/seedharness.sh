#!/bin/bash
# seedharness.sh [ids...]: for every recorded seed whose property has a replay harness, applies the seed to /repo, runs
# `govc harness <property>` (the bounded replay harness alone, no deductive check) and reverts. Shows which seeded
# changes the harnesses reproduce with a concrete failing input.
cd /verif
[ -z "$(git -C /repo status --porcelain)" ] || { echo "/repo not clean"; exit 2; }
ids=${@:-$(ls seeded)}
for id in $ids; do
  prop=${id:0:3}
  grep -q "\"$prop\":" engine/replay.go || continue
  git -C /repo apply /verif/seeded/$id/patch.diff || continue
  out=$(timeout 600 ./engine/bin/govc harness $prop 2>&1 | grep -E "REPLAY-FAIL|no failure" | cut -c1-260 | tr '\n' ' ')
  git -C /repo apply -R /verif/seeded/$id/patch.diff 2>/dev/null || git -C /repo checkout -- .
  echo "$id: ${out:-harness did not run}"
done
