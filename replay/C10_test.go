package prover

// Replay harness for C10 (injected with go test -overlay; never written into /repo).
// Builds synthetic proofs from curve points with small coordinates (multiples of the generators),
// runs the real Proof.MarshalJSON / UnmarshalJSON and compares the decoded proof's raw serialisation
// with the original, byte for byte.

import (
	"bytes"
	"encoding/json"
	"fmt"
	"math/big"
	"testing"

	"github.com/consensys/gnark-crypto/ecc"
	bn254 "github.com/consensys/gnark-crypto/ecc/bn254"
	"github.com/consensys/gnark/backend/groth16"
)

func verifMakeProof(a, b, c int64) ([]byte, groth16.Proof, error) {
	_, _, g1, g2 := bn254.Generators()
	var A, C bn254.G1Affine
	var B bn254.G2Affine
	A.ScalarMultiplication(&g1, big.NewInt(a))
	B.ScalarMultiplication(&g2, big.NewInt(b))
	C.ScalarMultiplication(&g1, big.NewInt(c))
	ra, rb, rc := A.RawBytes(), B.RawBytes(), C.RawBytes()
	raw := append(append(append([]byte{}, ra[:]...), rb[:]...), rc[:]...)
	p := groth16.NewProof(ecc.BN254)
	_, err := p.ReadFrom(bytes.NewReader(raw))
	return raw, p, err
}

func TestVerifReplayC10(t *testing.T) {
	for a := int64(1); a <= 40; a++ {
		for _, c := range []int64{1, 2, 3, a + 1} {
			raw, gp, err := verifMakeProof(a, a+2, c)
			if err != nil {
				fmt.Printf("REPLAY-SKIP could not build synthetic proof: %v\n", err)
				continue
			}
			p := &Proof{gp}
			doc, err := json.Marshal(p)
			if err != nil {
				fmt.Printf("REPLAY-FAIL {\"function\":\"Proof.MarshalJSON\",\"error\":%q}\n", err.Error())
				return
			}
			var q Proof
			err = json.Unmarshal(doc, &q)
			if err != nil {
				fmt.Printf("REPLAY-FAIL {\"function\":\"Proof.UnmarshalJSON\",\"proof\":\"A=%d*G1,B=%d*G2,C=%d*G1\",\"json\":%q,\"error\":%q}\n", a, a+2, c, string(doc), err.Error())
				return
			}
			var buf bytes.Buffer
			q.Proof.WriteRawTo(&buf)
			if !bytes.Equal(buf.Bytes()[:256], raw) {
				fmt.Printf("REPLAY-FAIL {\"function\":\"Proof.UnmarshalJSON\",\"proof\":\"A=%d*G1,B=%d*G2,C=%d*G1\",\"json\":%q,\"error\":\"decoded proof differs from the original\"}\n", a, a+2, c, string(doc))
				return
			}
		}
	}
	fmt.Println("REPLAY-OK all synthetic proofs round-trip")
}
