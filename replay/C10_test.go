package prover

// Replay harness for C10 (injected with go test -overlay; never written into /repo).
// Builds synthetic proofs from curve points with small coordinates (multiples of the generators),
// runs the real Proof.MarshalJSON / UnmarshalJSON and compares the decoded proof's raw serialisation
// with the original, byte for byte.

import (
	"bytes"
	"encoding/json"
	"fmt"
	"math/big"
	"testing"

	"github.com/consensys/gnark-crypto/ecc"
	bn254 "github.com/consensys/gnark-crypto/ecc/bn254"
	"github.com/consensys/gnark-crypto/ecc/bn254/fp"
	"github.com/consensys/gnark/backend/groth16"
)

func verifMakeProof(a, b, c int64) ([]byte, groth16.Proof, error) {
	_, _, g1, g2 := bn254.Generators()
	var A, C bn254.G1Affine
	var B bn254.G2Affine
	A.ScalarMultiplication(&g1, big.NewInt(a))
	B.ScalarMultiplication(&g2, big.NewInt(b))
	C.ScalarMultiplication(&g1, big.NewInt(c))
	ra, rb, rc := A.RawBytes(), B.RawBytes(), C.RawBytes()
	raw := append(append(append([]byte{}, ra[:]...), rb[:]...), rc[:]...)
	p := groth16.NewProof(ecc.BN254)
	_, err := p.ReadFrom(bytes.NewReader(raw))
	return raw, p, err
}

// verifBandPoint: a G1 point whose x coordinate lies in [r, p) — a legitimate base-field coordinate that is not a
// scalar-field element (x = r + k for the first k with x^3 + 3 a square)
func verifBandPoint() (bn254.G1Affine, bool) {
	r := ecc.BN254.ScalarField()
	for k := int64(0); k < 64; k++ {
		var x, rhs, y fp.Element
		x.SetBigInt(new(big.Int).Add(r, big.NewInt(k)))
		rhs.Square(&x).Mul(&rhs, &x)
		var three fp.Element
		three.SetUint64(3)
		rhs.Add(&rhs, &three)
		if y.Sqrt(&rhs) == nil {
			continue
		}
		p := bn254.G1Affine{X: x, Y: y}
		if p.IsOnCurve() {
			return p, true
		}
	}
	return bn254.G1Affine{}, false
}

func verifHexOf(e *fp.Element) string {
	var b big.Int
	e.BigInt(&b)
	return "0x" + b.Text(16)
}

// verifCheckDoc: the document lists the coordinates in the order the EVM verifier takes them
// (ar = A.x, A.y; bs = [[B.x.a1, B.x.a0], [B.y.a1, B.y.a0]]; krs = C.x, C.y)
func verifCheckDoc(doc []byte, A, C *bn254.G1Affine, B *bn254.G2Affine) string {
	var d struct {
		Ar  [2]string    `json:"ar"`
		Bs  [2][2]string `json:"bs"`
		Krs [2]string    `json:"krs"`
	}
	if err := json.Unmarshal(doc, &d); err != nil {
		return "document does not have the ar/bs/krs layout: " + err.Error()
	}
	num := func(s string) string {
		v, ok := new(big.Int).SetString(s, 0)
		if !ok {
			return "?" + s
		}
		return "0x" + v.Text(16)
	}
	want := []string{verifHexOf(&A.X), verifHexOf(&A.Y), verifHexOf(&B.X.A1), verifHexOf(&B.X.A0), verifHexOf(&B.Y.A1), verifHexOf(&B.Y.A0), verifHexOf(&C.X), verifHexOf(&C.Y)}
	got := []string{num(d.Ar[0]), num(d.Ar[1]), num(d.Bs[0][0]), num(d.Bs[0][1]), num(d.Bs[1][0]), num(d.Bs[1][1]), num(d.Krs[0]), num(d.Krs[1])}
	names := []string{"ar[0]=A.x", "ar[1]=A.y", "bs[0][0]=B.x.a1", "bs[0][1]=B.x.a0", "bs[1][0]=B.y.a1", "bs[1][1]=B.y.a0", "krs[0]=C.x", "krs[1]=C.y"}
	for i := range want {
		if want[i] != got[i] {
			return fmt.Sprintf("%s is %s in the document, the coordinate is %s", names[i], got[i], want[i])
		}
	}
	return ""
}

func verifRoundTrip(name string, A, C bn254.G1Affine, B bn254.G2Affine) bool {
	ra, rb, rc := A.RawBytes(), B.RawBytes(), C.RawBytes()
	raw := append(append(append([]byte{}, ra[:]...), rb[:]...), rc[:]...)
	gp := groth16.NewProof(ecc.BN254)
	if _, err := gp.ReadFrom(bytes.NewReader(raw)); err != nil {
		fmt.Printf("REPLAY-SKIP could not build synthetic proof %s: %v\n", name, err)
		return true
	}
	p := &Proof{gp}
	doc, err := json.Marshal(p)
	if err != nil {
		fmt.Printf("REPLAY-FAIL {\"function\":\"Proof.MarshalJSON\",\"proof\":%q,\"error\":%q}\n", name, err.Error())
		return false
	}
	if msg := verifCheckDoc(doc, &A, &C, &B); msg != "" {
		fmt.Printf("REPLAY-FAIL {\"function\":\"Proof.MarshalJSON\",\"proof\":%q,\"json\":%q,\"error\":%q}\n", name, string(doc), msg)
		return false
	}
	var q Proof
	if err := json.Unmarshal(doc, &q); err != nil {
		fmt.Printf("REPLAY-FAIL {\"function\":\"Proof.UnmarshalJSON\",\"proof\":%q,\"json\":%q,\"error\":%q}\n", name, string(doc), err.Error())
		return false
	}
	var buf bytes.Buffer
	q.Proof.WriteRawTo(&buf)
	if !bytes.Equal(buf.Bytes()[:256], raw) {
		fmt.Printf("REPLAY-FAIL {\"function\":\"Proof.UnmarshalJSON\",\"proof\":%q,\"json\":%q,\"error\":\"decoded proof differs from the original\"}\n", name, string(doc))
		return false
	}
	return true
}

func TestVerifReplayC10(t *testing.T) {
	_, _, g1, g2 := bn254.Generators()
	if bp, ok := verifBandPoint(); ok {
		// a coordinate in [r, p), as A and as C
		if !verifRoundTrip("A = point with x in [r,p), B = G2, C = G1", bp, g1, g2) || !verifRoundTrip("A = G1, B = G2, C = point with x in [r,p)", g1, bp, g2) {
			return
		}
	}
	for a := int64(1); a <= 12; a++ {
		var A, C bn254.G1Affine
		var B bn254.G2Affine
		A.ScalarMultiplication(&g1, big.NewInt(a))
		B.ScalarMultiplication(&g2, big.NewInt(a+2))
		C.ScalarMultiplication(&g1, big.NewInt(3*a))
		if !verifRoundTrip(fmt.Sprintf("A=%d*G1,B=%d*G2,C=%d*G1", a, a+2, 3*a), A, C, B) {
			return
		}
	}
	for a := int64(1); a <= 40; a++ {
		for _, c := range []int64{1, 2, 3, a + 1} {
			raw, gp, err := verifMakeProof(a, a+2, c)
			if err != nil {
				fmt.Printf("REPLAY-SKIP could not build synthetic proof: %v\n", err)
				continue
			}
			p := &Proof{gp}
			doc, err := json.Marshal(p)
			if err != nil {
				fmt.Printf("REPLAY-FAIL {\"function\":\"Proof.MarshalJSON\",\"error\":%q}\n", err.Error())
				return
			}
			var q Proof
			err = json.Unmarshal(doc, &q)
			if err != nil {
				fmt.Printf("REPLAY-FAIL {\"function\":\"Proof.UnmarshalJSON\",\"proof\":\"A=%d*G1,B=%d*G2,C=%d*G1\",\"json\":%q,\"error\":%q}\n", a, a+2, c, string(doc), err.Error())
				return
			}
			var buf bytes.Buffer
			q.Proof.WriteRawTo(&buf)
			if !bytes.Equal(buf.Bytes()[:256], raw) {
				fmt.Printf("REPLAY-FAIL {\"function\":\"Proof.UnmarshalJSON\",\"proof\":\"A=%d*G1,B=%d*G2,C=%d*G1\",\"json\":%q,\"error\":\"decoded proof differs from the original\"}\n", a, a+2, c, string(doc))
				return
			}
		}
	}
	fmt.Println("REPLAY-OK all synthetic proofs round-trip")
}
