package logging

// Replay harness for C19 (injected with go test -overlay; never written into /repo).
// (Injected into package logging: the root package has a TestMain that sets up proving systems and binds ports.)
// Builds the command-line program from the working tree and runs the pipeline setup → gen-test-params → prove →
// verify through files and pipes for both modes (depth 2, batch 1), checking exit statuses and that prove writes
// exactly one JSON document to standard output; then the failure cases: wrong hash, a well-formed proof that does
// not verify, keys of the other mode, unknown and missing mode, missing keys file, unprovable parameters.

import (
	"bytes"
	"encoding/json"
	"fmt"
	"io"
	"math/big"
	"net"
	"os"
	"os/exec"
	"path/filepath"
	"strings"
	"testing"
	"time"
)

func verifCLIFail(what string, extra map[string]interface{}) {
	m := map[string]interface{}{"function": "main (command line)", "error": what, "tree_depth": 2, "batch_size": 1}
	for k, v := range extra {
		m[k] = v
	}
	b, _ := json.Marshal(m)
	fmt.Printf("REPLAY-FAIL %s\n", b)
}

type verifRun struct {
	code   int
	stdout string
	stderr string
}

func verifExec(bin string, stdin string, args ...string) verifRun {
	cmd := exec.Command(bin, args...)
	cmd.Stdin = strings.NewReader(stdin)
	var so, se bytes.Buffer
	cmd.Stdout, cmd.Stderr = &so, &se
	cmd.Env = append(os.Environ(), "MTB_MODE=")
	done := make(chan error, 1)
	if err := cmd.Start(); err != nil {
		return verifRun{code: -1, stderr: err.Error()}
	}
	go func() { done <- cmd.Wait() }()
	select {
	case <-done:
	case <-time.After(120 * time.Second):
		cmd.Process.Kill()
		return verifRun{code: -2, stderr: "timeout"}
	}
	return verifRun{code: cmd.ProcessState.ExitCode(), stdout: so.String(), stderr: se.String()}
}

// verifOneDoc: the text is exactly one JSON value (surrounding white space allowed)
func verifOneDoc(s string, into interface{}) error {
	dec := json.NewDecoder(strings.NewReader(s))
	if err := dec.Decode(into); err != nil {
		return fmt.Errorf("not a JSON document: %v", err)
	}
	var extra interface{}
	if err := dec.Decode(&extra); err != io.EOF {
		return fmt.Errorf("more than one JSON document, or other output after it")
	}
	return nil
}

func TestVerifReplayC19(t *testing.T) {
	dir, err := os.MkdirTemp("", "verif-c19-")
	if err != nil {
		fmt.Printf("REPLAY-SKIP %v\n", err)
		return
	}
	defer os.RemoveAll(dir)
	bin := filepath.Join(dir, "gnark-mbu")
	args := []string{"build"}
	if mf := os.Getenv("VERIF_REPLAY_MODFILE"); mf != "" {
		args = append(args, "-modfile="+mf)
	}
	args = append(args, "-o", bin, "worldcoin/gnark-mbu")
	if out, err := exec.Command("go", args...).CombinedOutput(); err != nil {
		fmt.Printf("REPLAY-SKIP go build failed: %v %s\n", err, out)
		return
	}
	keys := map[string]string{}
	type proofDoc struct {
		Ar  [2]string    `json:"ar"`
		Bs  [2][2]string `json:"bs"`
		Krs [2]string    `json:"krs"`
	}
	proofs := map[string]string{}
	hashes := map[string]string{}
	for _, mode := range []string{"insertion", "deletion"} {
		in := map[string]interface{}{"mode": mode}
		keys[mode] = filepath.Join(dir, mode+".keys")
		r := verifExec(bin, "", "setup", "--mode", mode, "--tree-depth", "2", "--batch-size", "1", "--output", keys[mode])
		if st, err := os.Stat(keys[mode]); r.code != 0 || err != nil || st.Size() == 0 {
			in["exit_status"] = r.code
			verifCLIFail("setup does not leave a keys file with exit status 0", in)
			return
		}
		r = verifExec(bin, "", "gen-test-params", "--mode", mode, "--tree-depth", "2", "--batch-size", "1")
		var params map[string]interface{}
		if r.code != 0 || verifOneDoc(r.stdout, &params) != nil {
			in["exit_status"] = r.code
			in["stdout"] = r.stdout
			verifCLIFail("gen-test-params does not write one JSON document with exit status 0", in)
			return
		}
		paramsDoc := r.stdout
		hash, _ := params["inputHash"].(string)
		hashes[mode] = hash
		r = verifExec(bin, paramsDoc, "prove", "--mode", mode, "--keys-file", keys[mode])
		var pd proofDoc
		if r.code != 0 {
			in["exit_status"] = r.code
			in["stderr_tail"] = r.stderr[max(0, len(r.stderr)-300):]
			verifCLIFail("prove fails on the parameters gen-test-params wrote for the same mode and dimensions", in)
			return
		}
		if err := verifOneDoc(r.stdout, &pd); err != nil || pd.Ar[0] == "" || pd.Krs[1] == "" || pd.Bs[1][1] == "" {
			in["stdout"] = r.stdout[:min(len(r.stdout), 600)]
			verifCLIFail(fmt.Sprintf("the standard output of prove is not exactly one JSON proof (%v)", err), in)
			return
		}
		proofs[mode] = r.stdout
		r = verifExec(bin, proofs[mode], "verify", "--mode", mode, "--keys-file", keys[mode], "--input-hash", hash)
		if r.code != 0 {
			in["exit_status"] = r.code
			in["input_hash"] = hash
			in["proof"] = proofs[mode]
			in["stderr_tail"] = r.stderr[max(0, len(r.stderr)-300):]
			verifCLIFail("verify rejects the proof prove just wrote, for the parameters' input hash", in)
			return
		}
		// wrong hash
		h, _ := new(big.Int).SetString(hash, 0)
		wrong := "0x" + new(big.Int).Add(h, big.NewInt(1)).Text(16)
		if r = verifExec(bin, proofs[mode], "verify", "--mode", mode, "--keys-file", keys[mode], "--input-hash", wrong); r.code == 0 {
			in["input_hash"] = wrong
			verifCLIFail("verify exits with status 0 for an input hash the proof was not made for", in)
			return
		}
		// a well-formed proof that does not verify: C replaced by A (a curve point, so the document decodes)
		tam := pd
		tam.Krs = pd.Ar
		tb, _ := json.Marshal(tam)
		if r = verifExec(bin, string(tb), "verify", "--mode", mode, "--keys-file", keys[mode], "--input-hash", hash); r.code == 0 {
			in["proof"] = string(tb)
			verifCLIFail("verify exits with status 0 for a well-formed proof that does not verify", in)
			return
		}
		if r = verifExec(bin, "not a proof", "verify", "--mode", mode, "--keys-file", keys[mode], "--input-hash", hash); r.code == 0 {
			verifCLIFail("verify exits with status 0 for input that is not a proof", in)
			return
		}
		// modes and files
		for _, bad := range [][]string{{"--mode", "bogus"}, {}} {
			a := append([]string{"prove"}, bad...)
			a = append(a, "--keys-file", keys[mode])
			if r = verifExec(bin, paramsDoc, a...); r.code == 0 {
				in["arguments"] = strings.Join(a, " ")
				verifCLIFail("prove exits with status 0 for an unknown or missing mode", in)
				return
			}
			a = append([]string{"verify"}, bad...)
			a = append(a, "--keys-file", keys[mode], "--input-hash", hash)
			if r = verifExec(bin, proofs[mode], a...); r.code == 0 {
				in["arguments"] = strings.Join(a, " ")
				verifCLIFail("verify exits with status 0 for an unknown or missing mode", in)
				return
			}
		}
		if r = verifExec(bin, paramsDoc, "prove", "--mode", mode, "--keys-file", filepath.Join(dir, "absent.keys")); r.code == 0 {
			verifCLIFail("prove exits with status 0 although the keys file does not exist", in)
			return
		}
		// unprovable parameters: the post-root changed
		pr, _ := params["postRoot"].(string)
		pv, _ := new(big.Int).SetString(pr, 0)
		params["postRoot"] = "0x" + new(big.Int).Add(pv, big.NewInt(1)).Text(16)
		badDoc, _ := json.Marshal(params)
		if r = verifExec(bin, string(badDoc), "prove", "--mode", mode, "--keys-file", keys[mode]); r.code == 0 {
			in["stdout"] = r.stdout[:min(len(r.stdout), 300)]
			verifCLIFail("prove exits with status 0 for parameters that do not describe a valid batch", in)
			return
		}
	}
	// keys of the other mode
	for _, mode := range []string{"insertion", "deletion"} {
		other := "deletion"
		if mode == "deletion" {
			other = "insertion"
		}
		if r := verifExec(bin, proofs[mode], "verify", "--mode", other, "--keys-file", keys[other], "--input-hash", hashes[mode]); r.code == 0 {
			verifCLIFail("verify exits with status 0 for a proof of the other mode's system", map[string]interface{}{"proof_mode": mode, "keys_mode": other})
			return
		}
	}
	fmt.Println("REPLAY-OK the pipeline composes in both modes and every failure ends in a non-zero exit status")
}

// ---------------------------------------------------------------------------------------------------------------
// C14 (command line): `start`, then SIGINT — exit status 0, both addresses released
// ---------------------------------------------------------------------------------------------------------------

func verifFreeAddrCLI() string {
	l, err := net.Listen("tcp", "127.0.0.1:0")
	if err != nil {
		panic(err)
	}
	defer l.Close()
	return l.Addr().String()
}

func TestVerifReplayC14cli(t *testing.T) {
	dir, err := os.MkdirTemp("", "verif-c14-")
	if err != nil {
		fmt.Printf("REPLAY-SKIP %v\n", err)
		return
	}
	defer os.RemoveAll(dir)
	bin := filepath.Join(dir, "gnark-mbu")
	args := []string{"build"}
	if mf := os.Getenv("VERIF_REPLAY_MODFILE"); mf != "" {
		args = append(args, "-modfile="+mf)
	}
	args = append(args, "-o", bin, "worldcoin/gnark-mbu")
	if out, err := exec.Command("go", args...).CombinedOutput(); err != nil {
		fmt.Printf("REPLAY-SKIP go build failed: %v %s\n", err, out)
		return
	}
	keys := filepath.Join(dir, "keys")
	if r := verifExec(bin, "", "setup", "--mode", "insertion", "--tree-depth", "2", "--batch-size", "1", "--output", keys); r.code != 0 {
		fmt.Printf("REPLAY-SKIP setup failed with status %d\n", r.code)
		return
	}
	for cycle := 0; cycle < 2; cycle++ {
		pa, ma := verifFreeAddrCLI(), verifFreeAddrCLI()
		cmd := exec.Command(bin, "start", "--mode", "insertion", "--keys-file", keys, "--prover-address", pa, "--metrics-address", ma)
		var se bytes.Buffer
		cmd.Stderr = &se
		cmd.Stdout = &se
		if err := cmd.Start(); err != nil {
			fmt.Printf("REPLAY-SKIP %v\n", err)
			return
		}
		exited := make(chan error, 1)
		go func() { exited <- cmd.Wait() }()
		up := false
		for i := 0; i < 1200 && !up; i++ {
			select {
			case <-exited:
				verifCLIFail("`start` exits by itself before any stop is requested", map[string]interface{}{"output_tail": se.String()[max(0, se.Len()-400):]})
				return
			default:
			}
			c1, e1 := net.Dial("tcp", pa)
			c2, e2 := net.Dial("tcp", ma)
			if e1 == nil {
				c1.Close()
			}
			if e2 == nil {
				c2.Close()
			}
			up = e1 == nil && e2 == nil
			if !up {
				time.Sleep(50 * time.Millisecond)
			}
		}
		if !up {
			cmd.Process.Kill()
			fmt.Println("REPLAY-SKIP the servers did not come up within a minute")
			return
		}
		cmd.Process.Signal(os.Interrupt)
		select {
		case <-exited:
		case <-time.After(60 * time.Second):
			cmd.Process.Kill()
			verifCLIFail("`start` does not exit within a minute of SIGINT with no request in flight", map[string]interface{}{"cycle": cycle})
			return
		}
		if code := cmd.ProcessState.ExitCode(); code != 0 {
			verifCLIFail(fmt.Sprintf("`start` exits with status %d after a SIGINT (a graceful stop), want 0", code), map[string]interface{}{"cycle": cycle, "output_tail": se.String()[max(0, se.Len()-400):]})
			return
		}
		for _, a := range []string{pa, ma} {
			l, err := net.Listen("tcp", a)
			if err != nil {
				verifCLIFail("an address is still bound after the process exited: "+err.Error(), map[string]interface{}{"cycle": cycle})
				return
			}
			l.Close()
		}
	}
	fmt.Println("REPLAY-OK `start` exits with status 0 after SIGINT and releases both addresses")
}

// ---------------------------------------------------------------------------------------------------------------
// C12 (command line): the r1cs command in fresh processes with different GOMAXPROCS writes identical files
// ---------------------------------------------------------------------------------------------------------------

func TestVerifReplayC12cli(t *testing.T) {
	dir, err := os.MkdirTemp("", "verif-c12-")
	if err != nil {
		fmt.Printf("REPLAY-SKIP %v\n", err)
		return
	}
	defer os.RemoveAll(dir)
	bin := filepath.Join(dir, "gnark-mbu")
	args := []string{"build"}
	if mf := os.Getenv("VERIF_REPLAY_MODFILE"); mf != "" {
		args = append(args, "-modfile="+mf)
	}
	args = append(args, "-o", bin, "worldcoin/gnark-mbu")
	if out, err := exec.Command("go", args...).CombinedOutput(); err != nil {
		fmt.Printf("REPLAY-SKIP go build failed: %v %s\n", err, out)
		return
	}
	for _, mode := range []string{"insertion", "deletion"} {
		for _, dims := range [][2]string{{"2", "1"}, {"3", "2"}} {
			var first []byte
			for i, procs := range []string{"1", "2", "16", "5"} {
				out := filepath.Join(dir, fmt.Sprintf("%s-%s-%s-%d.r1cs", mode, dims[0], dims[1], i))
				cmd := exec.Command(bin, "r1cs", "--mode", mode, "--tree-depth", dims[0], "--batch-size", dims[1], "--output", out)
				cmd.Env = append(os.Environ(), "GOMAXPROCS="+procs, "MTB_MODE=")
				if o, err := cmd.CombinedOutput(); err != nil {
					verifCLIFail("the r1cs command fails: "+err.Error(), map[string]interface{}{"mode": mode, "depth": dims[0], "batch": dims[1], "output_tail": string(o[max(0, len(o)-300):])})
					return
				}
				b, err := os.ReadFile(out)
				if err != nil || len(b) == 0 {
					verifCLIFail("the r1cs command leaves no file", map[string]interface{}{"mode": mode, "depth": dims[0], "batch": dims[1]})
					return
				}
				if i == 0 {
					first = b
				} else if !bytes.Equal(first, b) {
					verifCLIFail("two runs of the r1cs command in fresh processes write different constraint systems", map[string]interface{}{"mode": mode, "depth": dims[0], "batch": dims[1], "GOMAXPROCS": "1 and " + procs})
					return
				}
				os.Remove(out)
			}
		}
	}
	if o, err := exec.Command(bin, "r1cs", "--mode", "deletion", "--tree-depth", "32", "--batch-size", "1", "--output", filepath.Join(dir, "deep")).CombinedOutput(); err == nil {
		verifCLIFail("the r1cs command builds a deletion circuit of depth 32", map[string]interface{}{"output_tail": string(o[max(0, len(o)-300):])})
		return
	}
	fmt.Println("REPLAY-OK fresh processes with GOMAXPROCS 1, 2, 5 and 16 write identical constraint systems; depth-32 deletion refused")
}
