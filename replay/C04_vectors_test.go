package keccak

// Reference vectors for the FIPS-202 transcription in /verif/spec/05_keccak.smt2 (injected with go test -overlay;
// never written into /repo): digests computed by golang.org/x/crypto/sha3 for messages around the rate boundaries.
// The engine evaluates keccak.digest of the specification on the same messages and demands equality.

import (
	"encoding/hex"
	"fmt"
	"testing"

	"golang.org/x/crypto/sha3"
)

func TestVerifVectorsC04(t *testing.T) {
	for _, n := range []int{0, 1, 3, 55, 134, 135, 136, 137, 271, 272, 273} {
		msg := make([]byte, n)
		for i := range msg {
			msg[i] = byte(37*i + 11*n + 5)
		}
		k := sha3.NewLegacyKeccak256()
		k.Write(msg)
		fmt.Printf("VECTOR 1 %s %s\n", hex.EncodeToString(msg), hex.EncodeToString(k.Sum(nil)))
		s := sha3.New256()
		s.Write(msg)
		fmt.Printf("VECTOR 6 %s %s\n", hex.EncodeToString(msg), hex.EncodeToString(s.Sum(nil)))
	}
}
