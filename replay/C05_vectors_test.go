package poseidon

// Reference data for the Poseidon specification in /verif/spec/02_poseidon.smt2 (injected with go test -overlay; never
// written into /repo): the repository's round-constant and MDS tables as they are at run time, and hashes computed by
// github.com/iden3/go-iden3-crypto/poseidon. The engine evaluates poseidon.hash1 / poseidon.hash2 of the specification
// over these tables and demands equality — this ties the table VALUES (abstract in the proofs of C05) to the reference.

import (
	"fmt"
	"math/big"
	"testing"

	"github.com/consensys/gnark/frontend"
	iden3 "github.com/iden3/go-iden3-crypto/poseidon"
)

func verifDump(name string, tab [][]frontend.Variable) {
	for i, row := range tab {
		for j, v := range row {
			b := v.(big.Int)
			fmt.Printf("TABLE %s %d %d %s\n", name, i, j, b.String())
		}
	}
}

func TestVerifVectorsC05(t *testing.T) {
	verifDump("g.poseidon.CONSTANTS_2", CONSTANTS_2)
	verifDump("g.poseidon.CONSTANTS_3", CONSTANTS_3)
	verifDump("g.poseidon.MDS_2", MDS_2)
	verifDump("g.poseidon.MDS_3", MDS_3)
	r, _ := new(big.Int).SetString("21888242871839275222246405745257275088548364400416034343698204186575808495617", 10)
	vals := []*big.Int{big.NewInt(0), big.NewInt(1), big.NewInt(2), big.NewInt(123456789), new(big.Int).Sub(r, big.NewInt(1)),
		new(big.Int).Lsh(big.NewInt(1), 200), new(big.Int).Rsh(r, 1)}
	for _, a := range vals {
		h, err := iden3.Hash([]*big.Int{a})
		if err != nil {
			t.Fatal(err)
		}
		fmt.Printf("HASH1 %s %s\n", a, h)
		for _, b := range vals {
			h, err := iden3.Hash([]*big.Int{a, b})
			if err != nil {
				t.Fatal(err)
			}
			fmt.Printf("HASH2 %s %s %s\n", a, b, h)
		}
	}
}
