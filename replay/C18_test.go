package poseidon_tree

// Replay harness for C18 (injected with go test -overlay; never written into /repo).
// Runs the real tree against a dense reference (every level recomputed from the leaf array with iden3 Poseidon):
// all histories of up to 3 updates over all indices and the values {0,1,2} at depths 1..3, then random longer
// histories at depths 1..6. After every update: root == full recomputation, untouched leaves unchanged, and the
// returned path authenticates the previous value against the previous root and the new value against the new root.

import (
	"fmt"
	"math/big"
	"math/rand"
	"testing"

	"github.com/iden3/go-iden3-crypto/poseidon"
)

func verifH(a, b *big.Int) *big.Int {
	h, err := poseidon.Hash([]*big.Int{a, b})
	if err != nil {
		panic(err)
	}
	return h
}

func verifDense(leaves []*big.Int) *big.Int {
	cur := leaves
	for len(cur) > 1 {
		var next []*big.Int
		for i := 0; i < len(cur); i += 2 {
			next = append(next, verifH(cur[i], cur[i+1]))
		}
		cur = next
	}
	return cur[0]
}

func verifFold(leaf *big.Int, path []big.Int, index int) *big.Int {
	cur := new(big.Int).Set(leaf)
	for k := range path {
		if (index>>uint(k))&1 == 0 {
			cur = verifH(cur, &path[k])
		} else {
			cur = verifH(&path[k], cur)
		}
	}
	return cur
}

type verifStep struct {
	Index int
	Value int64
}

func verifRun(depth int, hist []verifStep) string {
	tree := NewTree(depth)
	n := 1 << uint(depth)
	leaves := make([]*big.Int, n)
	for i := range leaves {
		leaves[i] = big.NewInt(0)
	}
	r0 := tree.Root()
	if r0.Cmp(verifDense(leaves)) != 0 {
		return "root of the empty tree differs from the full recomputation"
	}
	for s, st := range hist {
		oldRoot := tree.Root()
		oldLeaf := leaves[st.Index]
		proof := tree.Update(st.Index, *big.NewInt(st.Value))
		leaves[st.Index] = big.NewInt(st.Value)
		newRoot := tree.Root()
		if newRoot.Cmp(verifDense(leaves)) != 0 {
			return fmt.Sprintf("step %d: root differs from the full recomputation over the current leaves", s)
		}
		if len(proof) != depth {
			return fmt.Sprintf("step %d: proof has %d elements, depth is %d", s, len(proof), depth)
		}
		if verifFold(oldLeaf, proof, st.Index).Cmp(&oldRoot) != 0 {
			return fmt.Sprintf("step %d: returned path does not authenticate the previous value against the previous root", s)
		}
		if verifFold(big.NewInt(st.Value), proof, st.Index).Cmp(&newRoot) != 0 {
			return fmt.Sprintf("step %d: returned path does not authenticate the new value against the new root", s)
		}
	}
	return ""
}

func TestVerifReplayC18(t *testing.T) {
	report := func(depth int, hist []verifStep, msg string) {
		fmt.Printf("REPLAY-FAIL {\"function\":\"PoseidonTree.Update\",\"depth\":%d,\"history\":%q,\"observed\":%q}\n", depth, fmt.Sprint(hist), msg)
	}
	for depth := 1; depth <= 3; depth++ {
		n := 1 << uint(depth)
		var rec func(hist []verifStep) bool
		rec = func(hist []verifStep) bool {
			if msg := verifRun(depth, hist); msg != "" {
				report(depth, hist, msg)
				return true
			}
			if len(hist) == 3 || (depth == 3 && len(hist) == 2) {
				return false
			}
			for i := 0; i < n; i++ {
				for v := int64(0); v <= 2; v++ {
					if rec(append(append([]verifStep{}, hist...), verifStep{i, v})) {
						return true
					}
				}
			}
			return false
		}
		if rec(nil) {
			return
		}
	}
	rng := rand.New(rand.NewSource(1))
	for it := 0; it < 60; it++ {
		depth := 1 + rng.Intn(6)
		var hist []verifStep
		for k := 0; k < 12; k++ {
			hist = append(hist, verifStep{rng.Intn(1 << uint(depth)), int64(rng.Intn(3))})
		}
		if msg := verifRun(depth, hist); msg != "" {
			report(depth, hist, msg)
			return
		}
	}
	fmt.Println("REPLAY-OK all histories agree with the full recomputation")
}
