package prover

// Link vectors for C08 / C03 (injected with go test -overlay; never written into /repo): parameter sets and the input
// hash the REAL ComputeInputHashInsertion / ComputeInputHashDeletion compute for them. The engine evaluates the
// circuit-side specification (bit-level packing pack.insBits / pack.delBits, keccak.digest, pack.beval) on the same
// parameters and demands the same value: the two specifications (byte-level for the helpers, bit-level for the circuit)
// are otherwise only linked by assumption.

import (
	"fmt"
	"math/big"
	"testing"
)

func TestVerifVectorsC08(t *testing.T) {
	r, _ := new(big.Int).SetString("21888242871839275222246405745257275088548364400416034343698204186575808495617", 10)
	vals := []*big.Int{big.NewInt(0), big.NewInt(1), big.NewInt(255), big.NewInt(256), new(big.Int).Lsh(big.NewInt(1), 200),
		new(big.Int).Sub(new(big.Int).Lsh(big.NewInt(1), 248), big.NewInt(1)), new(big.Int).Sub(r, big.NewInt(1))}
	k := 0
	for _, start := range []uint32{0, 7, 65536, 4294967295} {
		for b := 1; b <= 3; b++ {
			p := InsertionParameters{StartIndex: start, PreRoot: *vals[k%len(vals)], PostRoot: *vals[(k+3)%len(vals)]}
			for i := 0; i < b; i++ {
				p.IdComms = append(p.IdComms, *vals[(k+i+1)%len(vals)])
			}
			k++
			if err := p.ComputeInputHashInsertion(); err != nil {
				t.Fatal(err)
			}
			fmt.Printf("INS %d %s %s", p.StartIndex, p.PreRoot.String(), p.PostRoot.String())
			for i := range p.IdComms {
				fmt.Printf(" %s", p.IdComms[i].String())
			}
			fmt.Printf(" = %s\n", p.InputHash.String())
		}
	}
	for b := 1; b <= 3; b++ {
		p := DeletionParameters{PreRoot: *vals[k%len(vals)], PostRoot: *vals[(k+2)%len(vals)]}
		for i := 0; i < b; i++ {
			p.DeletionIndices = append(p.DeletionIndices, []uint32{0, 2, 300, 4294967295}[(k+i)%4])
		}
		k++
		if err := p.ComputeInputHashDeletion(); err != nil {
			t.Fatal(err)
		}
		fmt.Printf("DEL %s %s", p.PreRoot.String(), p.PostRoot.String())
		for _, ix := range p.DeletionIndices {
			fmt.Printf(" %d", ix)
		}
		fmt.Printf(" = %s\n", p.InputHash.String())
	}
}
