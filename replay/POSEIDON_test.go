package poseidon

// Replay harness for C05 (injected with go test -overlay; never written into /repo).
// Runs the real Poseidon1 / Poseidon2 gadgets against github.com/iden3/go-iden3-crypto on gnark's test engine, and
// once through the R1CS compiler and solver with an input that is a linear expression used again after hashing.

import (
	"encoding/json"
	"fmt"
	"math/big"
	"testing"

	"github.com/consensys/gnark-crypto/ecc"
	"github.com/consensys/gnark/frontend"
	"github.com/consensys/gnark/frontend/cs/r1cs"
	"github.com/consensys/gnark/test"
	ref "github.com/iden3/go-iden3-crypto/poseidon"
)

type verifPoseidonCircuit struct {
	In  []frontend.Variable
	Out frontend.Variable
}

func (c *verifPoseidonCircuit) Define(api frontend.API) error {
	var h frontend.Variable
	if len(c.In) == 1 {
		h = Poseidon1{In: c.In[0]}.DefineGadget(api).(frontend.Variable)
	} else {
		h = Poseidon2{In1: c.In[0], In2: c.In[1]}.DefineGadget(api).(frontend.Variable)
	}
	api.AssertIsEqual(h, c.Out)
	return nil
}

// verifReuseCircuit hashes linear expressions and uses them again afterwards
type verifReuseCircuit struct {
	A, B, Sum, Out frontend.Variable
}

func (c *verifReuseCircuit) Define(api frontend.API) error {
	x := api.Add(c.A, c.B)
	h := Poseidon2{In1: x, In2: c.B}.DefineGadget(api).(frontend.Variable)
	api.AssertIsEqual(h, c.Out)
	api.AssertIsEqual(x, c.Sum)
	api.AssertIsEqual(api.Add(x, 0), c.Sum)
	return nil
}

func verifPosFail(function, what string, in []*big.Int) {
	var xs []string
	for _, v := range in {
		xs = append(xs, v.String())
	}
	b, _ := json.Marshal(map[string]interface{}{"function": function, "inputs": xs, "error": what})
	fmt.Printf("REPLAY-FAIL %s\n", b)
}

func TestVerifReplayC05(t *testing.T) {
	field := ecc.BN254.ScalarField()
	rm1 := new(big.Int).Sub(field, big.NewInt(1))
	big1, _ := new(big.Int).SetString("12345678901234567890123456789012345678901234567890", 10)
	vals := []*big.Int{big.NewInt(0), big.NewInt(1), big.NewInt(2), rm1, big1, new(big.Int).Lsh(big.NewInt(1), 253)}
	guard := func(f func() error) (err error) {
		defer func() {
			if r := recover(); r != nil {
				err = fmt.Errorf("panic: %v", r)
			}
		}()
		return f()
	}
	for _, a := range vals {
		want, err := ref.Hash([]*big.Int{a})
		if err != nil {
			fmt.Printf("REPLAY-SKIP reference failed: %v\n", err)
			return
		}
		if err := guard(func() error {
			return test.IsSolved(&verifPoseidonCircuit{In: make([]frontend.Variable, 1)}, &verifPoseidonCircuit{In: []frontend.Variable{a}, Out: want}, field)
		}); err != nil {
			verifPosFail("Poseidon1", "the gadget's value differs from the reference Poseidon: "+err.Error(), []*big.Int{a})
			return
		}
		for _, b := range vals {
			want, err := ref.Hash([]*big.Int{a, b})
			if err != nil {
				fmt.Printf("REPLAY-SKIP reference failed: %v\n", err)
				return
			}
			if err := guard(func() error {
				return test.IsSolved(&verifPoseidonCircuit{In: make([]frontend.Variable, 2)}, &verifPoseidonCircuit{In: []frontend.Variable{a, b}, Out: want}, field)
			}); err != nil {
				verifPosFail("Poseidon2", "the gadget's value differs from the reference Poseidon: "+err.Error(), []*big.Int{a, b})
				return
			}
		}
	}
	// through the R1CS builder and solver, with a hashed linear expression that is used again
	ccs, err := frontend.Compile(field, r1cs.NewBuilder, &verifReuseCircuit{})
	if err != nil {
		fmt.Printf("REPLAY-SKIP compile failed: %v\n", err)
		return
	}
	for _, ab := range [][2]*big.Int{{big.NewInt(3), big.NewInt(4)}, {big1, rm1}, {big.NewInt(0), big.NewInt(0)}} {
		sum := new(big.Int).Mod(new(big.Int).Add(ab[0], ab[1]), field)
		want, _ := ref.Hash([]*big.Int{sum, ab[1]})
		w, err := frontend.NewWitness(&verifReuseCircuit{A: ab[0], B: ab[1], Sum: sum, Out: want}, field)
		if err != nil {
			fmt.Printf("REPLAY-SKIP witness failed: %v\n", err)
			return
		}
		if err := guard(func() error { return ccs.IsSolved(w) }); err != nil {
			verifPosFail("Poseidon2", "compiled to R1CS with a linear expression as input that is used again after hashing, the constraints are not satisfied by the reference value: "+err.Error(), []*big.Int{ab[0], ab[1]})
			return
		}
	}
	fmt.Println("REPLAY-OK both gadgets agree with the reference Poseidon on the test engine and through R1CS")
}
