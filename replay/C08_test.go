package prover

// Replay harness for C08 (injected with go test -overlay; never written into /repo).
// Runs the real ComputeInputHashInsertion / ComputeInputHashDeletion against an independent
// fixed-width packing + golang.org/x/crypto legacy Keccak-256 on candidate inputs
// (solver model values from VERIF_REPLAY_MODEL when present, then a fixed edge-case list).

import (
	"encoding/binary"
	"encoding/json"
	"fmt"
	"math/big"
	"os"
	"testing"

	"golang.org/x/crypto/sha3"
)

func verifRefHash(data []byte) *big.Int {
	h := sha3.NewLegacyKeccak256()
	h.Write(data)
	return new(big.Int).SetBytes(h.Sum(nil))
}

func verifPad32(v *big.Int) []byte { return v.FillBytes(make([]byte, 32)) }

func verifCandidates() []*big.Int {
	var out []*big.Int
	if m := os.Getenv("VERIF_REPLAY_MODEL"); m != "" {
		var vals map[string]string
		if json.Unmarshal([]byte(m), &vals) == nil {
			for _, s := range vals {
				if v, ok := new(big.Int).SetString(s, 10); ok && v.Sign() >= 0 && v.BitLen() <= 256 {
					out = append(out, v)
				}
			}
		}
	}
	r, _ := new(big.Int).SetString("21888242871839275222246405745257275088548364400416034343698204186575808495617", 10)
	for _, s := range []string{"0", "1", "5", "255", "256", "65535"} {
		v, _ := new(big.Int).SetString(s, 10)
		out = append(out, v)
	}
	out = append(out, new(big.Int).Sub(r, big.NewInt(1)))
	out = append(out, new(big.Int).Sub(new(big.Int).Lsh(big.NewInt(1), 248), big.NewInt(1)))
	out = append(out, new(big.Int).Lsh(big.NewInt(1), 248))
	out = append(out, new(big.Int).Lsh(big.NewInt(1), 200))
	return out
}

func TestVerifReplayC08(t *testing.T) {
	cands := verifCandidates()
	for _, pre := range cands {
		for _, post := range cands {
			for _, id := range []*big.Int{big.NewInt(1), cands[len(cands)-1]} {
				p := InsertionParameters{StartIndex: 7, PreRoot: *pre, PostRoot: *post, IdComms: []big.Int{*id}}
				if err := p.ComputeInputHashInsertion(); err != nil {
					fmt.Printf("REPLAY-FAIL {\"function\":\"ComputeInputHashInsertion\",\"error\":%q}\n", err.Error())
					return
				}
				var data []byte
				data = binary.BigEndian.AppendUint32(data, 7)
				data = append(data, verifPad32(pre)...)
				data = append(data, verifPad32(post)...)
				data = append(data, verifPad32(id)...)
				want := verifRefHash(data)
				if want.Cmp(&p.InputHash) != 0 {
					fmt.Printf("REPLAY-FAIL {\"function\":\"ComputeInputHashInsertion\",\"StartIndex\":7,\"PreRoot\":\"%s\",\"PostRoot\":\"%s\",\"IdComms\":[\"%s\"],\"got\":\"0x%s\",\"want\":\"0x%s\"}\n",
						pre, post, id, p.InputHash.Text(16), want.Text(16))
					return
				}
			}
			d := DeletionParameters{PreRoot: *pre, PostRoot: *post, DeletionIndices: []uint32{3, 4294967295}}
			if err := d.ComputeInputHashDeletion(); err != nil {
				fmt.Printf("REPLAY-FAIL {\"function\":\"ComputeInputHashDeletion\",\"error\":%q}\n", err.Error())
				return
			}
			var data []byte
			data = binary.BigEndian.AppendUint32(data, 3)
			data = binary.BigEndian.AppendUint32(data, 4294967295)
			data = append(data, verifPad32(pre)...)
			data = append(data, verifPad32(post)...)
			want := verifRefHash(data)
			if want.Cmp(&d.InputHash) != 0 {
				fmt.Printf("REPLAY-FAIL {\"function\":\"ComputeInputHashDeletion\",\"DeletionIndices\":[3,4294967295],\"PreRoot\":\"%s\",\"PostRoot\":\"%s\",\"got\":\"0x%s\",\"want\":\"0x%s\"}\n",
					pre, post, d.InputHash.Text(16), want.Text(16))
				return
			}
		}
	}
	// batches of several commitments of different byte lengths, in every order of three magnitudes
	mags := []*big.Int{cands[len(cands)-1], big.NewInt(1), new(big.Int).Lsh(big.NewInt(1), 100), big.NewInt(0), cands[len(cands)-2]}
	for a := range mags {
		for b := range mags {
			for c := range mags {
				ids := []big.Int{*mags[a], *mags[b], *mags[c]}
				p := InsertionParameters{StartIndex: 4294967295, PreRoot: *big.NewInt(5), PostRoot: *mags[2], IdComms: ids}
				if err := p.ComputeInputHashInsertion(); err != nil {
					fmt.Printf("REPLAY-FAIL {\"function\":\"ComputeInputHashInsertion\",\"error\":%q}\n", err.Error())
					return
				}
				var data []byte
				data = binary.BigEndian.AppendUint32(data, 4294967295)
				data = append(data, verifPad32(big.NewInt(5))...)
				data = append(data, verifPad32(mags[2])...)
				for i := range ids {
					data = append(data, verifPad32(&ids[i])...)
				}
				want := verifRefHash(data)
				if want.Cmp(&p.InputHash) != 0 {
					fmt.Printf("REPLAY-FAIL {\"function\":\"ComputeInputHashInsertion\",\"StartIndex\":4294967295,\"PreRoot\":\"5\",\"PostRoot\":\"%s\",\"IdComms\":[\"%s\",\"%s\",\"%s\"],\"got\":\"0x%s\",\"want\":\"0x%s\"}\n",
						mags[2], &ids[0], &ids[1], &ids[2], p.InputHash.Text(16), want.Text(16))
					return
				}
			}
		}
	}
	fmt.Println("REPLAY-OK all candidate inputs agree with the reference packing")
}
