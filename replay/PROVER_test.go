package prover

// Replay harnesses that need a real proving system (injected with go test -overlay; never written into /repo):
// C07 (a proof verifies for exactly its own input hash and system), C11 (write/read in both formats gives an
// interchangeable system), C12 (compilation deterministic, one public input, depth guard), C15 (every sampled strict
// prefix of a keys file is rejected). Small dimensions (depth 2, batch 1; depth and batch differ so that a swap shows).
// Parameter sets come from an independent dense Poseidon tree (iden3) and an independent packing + x/crypto Keccak-256,
// not from the repository's tree or input-hash helpers.

import (
	"bytes"
	"encoding/binary"
	"encoding/json"
	"fmt"
	"math/big"
	"os"
	"path/filepath"
	"testing"

	"github.com/consensys/gnark-crypto/ecc"
	"github.com/consensys/gnark/backend"
	"github.com/consensys/gnark/backend/witness"
	"github.com/consensys/gnark/frontend"
	"github.com/consensys/gnark/test"
	"github.com/iden3/go-iden3-crypto/poseidon"
	"golang.org/x/crypto/sha3"
)

const verifDepth, verifBatch = 2, 1

// verifDimsInReport: the running test uses the proving system of dimensions verifDepth/verifBatch
var verifDimsInReport bool

func verifPSFail(function, what string, extra map[string]interface{}) {
	m := map[string]interface{}{"function": function, "error": what}
	if verifDimsInReport {
		m["tree_depth"], m["batch_size"] = verifDepth, verifBatch
	}
	for k, v := range extra {
		m[k] = v
	}
	b, _ := json.Marshal(m)
	fmt.Printf("REPLAY-FAIL %s\n", b)
}

func verifPH(a, b *big.Int) *big.Int {
	h, err := poseidon.Hash([]*big.Int{a, b})
	if err != nil {
		panic(err)
	}
	return h
}

type verifRefTree struct{ leaves []*big.Int }

func verifNewRefTree(depth int) *verifRefTree {
	t := &verifRefTree{leaves: make([]*big.Int, 1<<uint(depth))}
	for i := range t.leaves {
		t.leaves[i] = big.NewInt(0)
	}
	return t
}

func (t *verifRefTree) levels() [][]*big.Int {
	out := [][]*big.Int{t.leaves}
	cur := t.leaves
	for len(cur) > 1 {
		var next []*big.Int
		for i := 0; i < len(cur); i += 2 {
			next = append(next, verifPH(cur[i], cur[i+1]))
		}
		out = append(out, next)
		cur = next
	}
	return out
}

func (t *verifRefTree) root() big.Int { l := t.levels(); return *new(big.Int).Set(l[len(l)-1][0]) }

func (t *verifRefTree) path(i int) []big.Int {
	l := t.levels()
	var p []big.Int
	for k := 0; k < len(l)-1; k++ {
		p = append(p, *new(big.Int).Set(l[k][(i>>uint(k))^1]))
	}
	return p
}

func verifKeccak(data []byte) big.Int {
	h := sha3.NewLegacyKeccak256()
	h.Write(data)
	return *new(big.Int).SetBytes(h.Sum(nil))
}

func verifP32(v *big.Int) []byte { return v.FillBytes(make([]byte, 32)) }

// verifInsParams: a valid insertion batch at start (leaves below start already filled), values val, val+1, …
func verifInsParams(depth, batch, start int, val int64) *InsertionParameters {
	t := verifNewRefTree(depth)
	for i := 0; i < start; i++ {
		t.leaves[i] = big.NewInt(int64(1000 + i))
	}
	p := &InsertionParameters{StartIndex: uint32(start)}
	p.PreRoot = t.root()
	for i := 0; i < batch; i++ {
		p.MerkleProofs = append(p.MerkleProofs, t.path(start+i))
		v := big.NewInt(val + int64(i))
		p.IdComms = append(p.IdComms, *v)
		t.leaves[start+i] = v
	}
	p.PostRoot = t.root()
	var data []byte
	data = binary.BigEndian.AppendUint32(data, p.StartIndex)
	data = append(data, verifP32(&p.PreRoot)...)
	data = append(data, verifP32(&p.PostRoot)...)
	for i := range p.IdComms {
		data = append(data, verifP32(&p.IdComms[i])...)
	}
	p.InputHash = verifKeccak(data)
	return p
}

// verifDelParams: a valid deletion batch of the leaves first, first+1, … of a full tree
func verifDelParams(depth, batch, first int) *DeletionParameters {
	t := verifNewRefTree(depth)
	for i := range t.leaves {
		t.leaves[i] = big.NewInt(int64(7 + i))
	}
	p := &DeletionParameters{}
	p.PreRoot = t.root()
	for i := 0; i < batch; i++ {
		idx := first + i
		p.DeletionIndices = append(p.DeletionIndices, uint32(idx))
		p.IdComms = append(p.IdComms, *new(big.Int).Set(t.leaves[idx]))
		p.MerkleProofs = append(p.MerkleProofs, t.path(idx))
		t.leaves[idx] = big.NewInt(0)
	}
	p.PostRoot = t.root()
	var data []byte
	for _, ix := range p.DeletionIndices {
		data = binary.BigEndian.AppendUint32(data, ix)
	}
	data = append(data, verifP32(&p.PreRoot)...)
	data = append(data, verifP32(&p.PostRoot)...)
	p.InputHash = verifKeccak(data)
	return p
}

func verifGuard(f func() error) (err error) {
	defer func() {
		if r := recover(); r != nil {
			err = fmt.Errorf("panic: %v", r)
		}
	}()
	return f()
}

var verifR, _ = new(big.Int).SetString("21888242871839275222246405745257275088548364400416034343698204186575808495617", 10)

// ---------------------------------------------------------------------------------------------------------------
// C07
// ---------------------------------------------------------------------------------------------------------------

// verifShapes: ValidateShape answers nil exactly for rectangular parameters of the system's dimensions (no proving
// system needed: every combination of row lengths up to depth+1 for batches of 0..3)
func verifShapes() bool {
	const depth, batch = 2, 2
	var rows func(n int, cur []int, f func([]int) bool) bool
	rows = func(n int, cur []int, f func([]int) bool) bool {
		if len(cur) == n {
			return f(cur)
		}
		for l := 0; l <= depth+1; l++ {
			if !rows(n, append(append([]int{}, cur...), l), f) {
				return false
			}
		}
		return true
	}
	for nRows := 0; nRows <= 3; nRows++ {
		for nIds := 0; nIds <= 3; nIds++ {
			ok := rows(nRows, nil, func(shape []int) bool {
				exact := nRows == batch && nIds == batch
				mp := make([][]big.Int, nRows)
				for i, l := range shape {
					mp[i] = make([]big.Int, l)
					exact = exact && l == depth
				}
				ip := InsertionParameters{IdComms: make([]big.Int, nIds), MerkleProofs: mp}
				dp := DeletionParameters{IdComms: make([]big.Int, nIds), MerkleProofs: mp, DeletionIndices: make([]uint32, nIds)}
				in := map[string]interface{}{"tree_depth": depth, "batch_size": batch, "identityCommitments": nIds, "merkleProofs_row_lengths": shape}
				if err := verifGuard(func() error { return ip.ValidateShape(depth, batch) }); (err == nil) != exact {
					verifPSFail("InsertionParameters.ValidateShape", fmt.Sprintf("answered %v for a parameter set whose dimensions match: %v", err, exact), in)
					return false
				}
				if err := verifGuard(func() error { return dp.ValidateShape(depth, batch) }); (err == nil) != exact {
					verifPSFail("DeletionParameters.ValidateShape", fmt.Sprintf("answered %v for a parameter set whose dimensions match: %v", err, exact), in)
					return false
				}
				return true
			})
			if !ok {
				return false
			}
		}
	}
	return true
}

func TestVerifReplayC07(t *testing.T) {
	verifDimsInReport = true
	if !verifShapes() {
		return
	}
	ins, err := SetupInsertion(verifDepth, verifBatch)
	if err != nil {
		fmt.Printf("REPLAY-SKIP setup failed: %v\n", err)
		return
	}
	del, err := SetupDeletion(verifDepth, verifBatch)
	if err != nil {
		fmt.Printf("REPLAY-SKIP setup failed: %v\n", err)
		return
	}
	for start := 0; start+verifBatch <= 1<<verifDepth; start++ {
		p := verifInsParams(verifDepth, verifBatch, start, 5)
		doc, _ := json.Marshal(map[string]interface{}{"startIndex": start, "idComms": fmt.Sprint(p.IdComms)})
		in := map[string]interface{}{"mode": "insertion", "batch": string(doc)}
		proof, err := ins.ProveInsertion(p)
		if err != nil || proof == nil {
			verifPSFail("ProvingSystem.ProveInsertion", fmt.Sprintf("valid batch not proved: %v", err), in)
			return
		}
		if err := ins.VerifyInsertion(p.InputHash, proof); err != nil {
			verifPSFail("ProvingSystem.VerifyInsertion", "own proof rejected for the parameters' input hash: "+err.Error(), in)
			return
		}
		red := new(big.Int).Mod(&p.InputHash, verifR)
		if err := ins.VerifyInsertion(*red, proof); err != nil {
			verifPSFail("ProvingSystem.VerifyInsertion", "own proof rejected for the input hash reduced modulo r: "+err.Error(), in)
			return
		}
		if err := ins.VerifyInsertion(*new(big.Int).Add(red, verifR), proof); err != nil {
			verifPSFail("ProvingSystem.VerifyInsertion", "own proof rejected for the representative (hash mod r) + r of its input hash: "+err.Error(), in)
			return
		}
		two256 := new(big.Int).Lsh(big.NewInt(1), 256)
		others := []*big.Int{new(big.Int).Add(red, big.NewInt(1)), new(big.Int).Add(red, big.NewInt(2)), new(big.Int).Add(&p.InputHash, two256), new(big.Int).Add(red, two256)}
		if red.Sign() > 0 {
			others = append(others, new(big.Int).Sub(red, big.NewInt(1)))
		}
		for _, other := range others {
			if err := verifGuard(func() error { return ins.VerifyInsertion(*other, proof) }); err == nil {
				in["candidate"] = other.String()
				verifPSFail("ProvingSystem.VerifyInsertion", "proof accepted for a public input other than its input hash", in)
				return
			}
		}
		if err := verifGuard(func() error { return del.VerifyDeletion(p.InputHash, proof) }); err == nil {
			verifPSFail("ProvingSystem.VerifyDeletion", "insertion proof accepted by the deletion system", in)
			return
		}
	}
	// invalid batches and wrong dimensions: an error and no proof
	bad := verifInsParams(verifDepth, verifBatch, 1, 5)
	bad.PostRoot.Add(&bad.PostRoot, big.NewInt(1))
	if proof, err := ins.ProveInsertion(bad); err == nil || proof != nil {
		verifPSFail("ProvingSystem.ProveInsertion", "a batch with a wrong post-root was proved", nil)
		return
	}
	occupied := verifInsParams(verifDepth, verifBatch, 1, 5)
	occupied.StartIndex = 0 // leaf 0 is occupied in that tree; the path given is for leaf 1
	if proof, err := ins.ProveInsertion(occupied); err == nil || proof != nil {
		verifPSFail("ProvingSystem.ProveInsertion", "a batch whose start index does not match its paths was proved", nil)
		return
	}
	for _, dims := range [][2]int{{verifDepth + 1, verifBatch}, {verifDepth, verifBatch + 1}, {verifDepth - 1, verifBatch}} {
		w := verifInsParams(dims[0], dims[1], 0, 5)
		proof, err := ins.ProveInsertion(w)
		perr := verifGuard(func() error { return nil })
		_ = perr
		if err == nil || proof != nil {
			verifPSFail("ProvingSystem.ProveInsertion", fmt.Sprintf("parameters of dimensions depth %d batch %d were proved", dims[0], dims[1]), nil)
			return
		}
	}
	for first := 0; first+verifBatch <= 1<<verifDepth; first++ {
		p := verifDelParams(verifDepth, verifBatch, first)
		in := map[string]interface{}{"mode": "deletion", "deletionIndices": p.DeletionIndices}
		proof, err := del.ProveDeletion(p)
		if err != nil || proof == nil {
			verifPSFail("ProvingSystem.ProveDeletion", fmt.Sprintf("valid batch not proved: %v", err), in)
			return
		}
		if err := del.VerifyDeletion(p.InputHash, proof); err != nil {
			verifPSFail("ProvingSystem.VerifyDeletion", "own proof rejected for the parameters' input hash: "+err.Error(), in)
			return
		}
		red := new(big.Int).Mod(&p.InputHash, verifR)
		for _, other := range []*big.Int{new(big.Int).Add(red, big.NewInt(1)), new(big.Int).Add(&p.InputHash, new(big.Int).Lsh(big.NewInt(1), 256))} {
			if err := verifGuard(func() error { return del.VerifyDeletion(*other, proof) }); err == nil {
				in["candidate"] = other.String()
				verifPSFail("ProvingSystem.VerifyDeletion", "proof accepted for a public input other than its input hash", in)
				return
			}
		}
		// the same deletion announced at an index outside the tree and outside the padding range (index + 2^(depth+1))
		al := verifDelParams(verifDepth, verifBatch, first)
		al.DeletionIndices[0] += 1 << (verifDepth + 1)
		var data []byte
		for _, ix := range al.DeletionIndices {
			data = binary.BigEndian.AppendUint32(data, ix)
		}
		data = append(data, verifP32(&al.PreRoot)...)
		data = append(data, verifP32(&al.PostRoot)...)
		al.InputHash = verifKeccak(data)
		if pr, err := del.ProveDeletion(al); err == nil || pr != nil {
			in["deletionIndices"] = al.DeletionIndices
			verifPSFail("ProvingSystem.ProveDeletion", "a deletion whose index lies beyond 2^(depth+1) (it aliases a genuine one) was proved", in)
			return
		}
		if err := verifGuard(func() error { return ins.VerifyInsertion(p.InputHash, proof) }); err == nil {
			verifPSFail("ProvingSystem.VerifyInsertion", "deletion proof accepted by the insertion system", in)
			return
		}
	}
	badDel := verifDelParams(verifDepth, verifBatch, 1)
	badDel.IdComms[0].Add(&badDel.IdComms[0], big.NewInt(1))
	if proof, err := del.ProveDeletion(badDel); err == nil || proof != nil {
		verifPSFail("ProvingSystem.ProveDeletion", "a deletion of a value that is not in the tree was proved", nil)
		return
	}
	fmt.Println("REPLAY-OK proofs verify for exactly their own input hash and system; invalid batches are refused")
}

// ---------------------------------------------------------------------------------------------------------------
// C11
// ---------------------------------------------------------------------------------------------------------------

func TestVerifReplayC11(t *testing.T) {
	verifDimsInReport = true
	dir, err := os.MkdirTemp("", "verif-c11-")
	if err != nil {
		fmt.Printf("REPLAY-SKIP %v\n", err)
		return
	}
	defer os.RemoveAll(dir)
	for _, mode := range []string{"insertion", "deletion"} {
		var ps *ProvingSystem
		if mode == "insertion" {
			ps, err = SetupInsertion(verifDepth, verifBatch)
		} else {
			ps, err = SetupDeletion(verifDepth, verifBatch)
		}
		if err != nil {
			fmt.Printf("REPLAY-SKIP setup failed: %v\n", err)
			return
		}
		prove := func(s *ProvingSystem) (*Proof, big.Int, error) {
			if mode == "insertion" {
				p := verifInsParams(verifDepth, verifBatch, 1, 9)
				pr, err := s.ProveInsertion(p)
				return pr, p.InputHash, err
			}
			p := verifDelParams(verifDepth, verifBatch, 2)
			pr, err := s.ProveDeletion(p)
			return pr, p.InputHash, err
		}
		verify := func(s *ProvingSystem, h big.Int, pr *Proof) error {
			if mode == "insertion" {
				return s.VerifyInsertion(h, pr)
			}
			return s.VerifyDeletion(h, pr)
		}
		origProof, origHash, err := prove(ps)
		if err != nil {
			verifPSFail("ProvingSystem.Prove", "valid batch not proved by the original system: "+err.Error(), map[string]interface{}{"mode": mode})
			return
		}
		for _, format := range []string{"compressed (WriteTo)", "raw (WriteRawTo)"} {
			in := map[string]interface{}{"mode": mode, "format": format}
			path := filepath.Join(dir, "keys")
			f, err := os.Create(path)
			if err != nil {
				fmt.Printf("REPLAY-SKIP %v\n", err)
				return
			}
			var n int64
			if format[0] == 'c' {
				n, err = ps.WriteTo(f)
			} else {
				n, err = ps.WriteRawTo(f)
			}
			f.Close()
			if err != nil {
				verifPSFail("ProvingSystem.Write", err.Error(), in)
				return
			}
			if st, _ := os.Stat(path); st == nil || st.Size() != n {
				verifPSFail("ProvingSystem.Write", fmt.Sprintf("reported %d bytes written, file has %d", n, st.Size()), in)
				return
			}
			var back *ProvingSystem
			err = verifGuard(func() (e error) { back, e = ReadSystemFromFile(path); return })
			if err != nil {
				verifPSFail("ReadSystemFromFile", "a file just written is not read back: "+err.Error(), in)
				return
			}
			if back.TreeDepth != ps.TreeDepth || back.BatchSize != ps.BatchSize {
				verifPSFail("ReadSystemFromFile", fmt.Sprintf("reloaded depth/batch %d/%d, written %d/%d", back.TreeDepth, back.BatchSize, ps.TreeDepth, ps.BatchSize), in)
				return
			}
			var a, b bytes.Buffer
			ps.VerifyingKey.WriteRawTo(&a)
			back.VerifyingKey.WriteRawTo(&b)
			if !bytes.Equal(a.Bytes(), b.Bytes()) {
				verifPSFail("ReadSystemFromFile", "reloaded verifying key differs from the original", in)
				return
			}
			a.Reset()
			b.Reset()
			ps.ProvingKey.WriteRawTo(&a)
			back.ProvingKey.WriteRawTo(&b)
			if !bytes.Equal(a.Bytes(), b.Bytes()) {
				verifPSFail("ReadSystemFromFile", "reloaded proving key differs from the original", in)
				return
			}
			a.Reset()
			b.Reset()
			ps.ConstraintSystem.WriteTo(&a)
			back.ConstraintSystem.WriteTo(&b)
			if !bytes.Equal(a.Bytes(), b.Bytes()) {
				verifPSFail("ReadSystemFromFile", "reloaded constraint system differs from the original", in)
				return
			}
			var newProof *Proof
			var newHash big.Int
			err = verifGuard(func() (e error) { newProof, newHash, e = prove(back); return })
			if err != nil {
				verifPSFail("ProvingSystem.Prove", "the reloaded system does not prove a valid batch: "+err.Error(), in)
				return
			}
			if err := verify(ps, newHash, newProof); err != nil {
				verifPSFail("ProvingSystem.Verify", "the original system rejects a proof of the reloaded one: "+err.Error(), in)
				return
			}
			if err := verify(back, origHash, origProof); err != nil {
				verifPSFail("ProvingSystem.Verify", "the reloaded system rejects a proof of the original one: "+err.Error(), in)
				return
			}
		}
	}
	fmt.Println("REPLAY-OK both formats reload to an interchangeable system in both modes")
}

// ---------------------------------------------------------------------------------------------------------------
// C12
// ---------------------------------------------------------------------------------------------------------------

func TestVerifReplayC12(t *testing.T) {
	for _, mode := range []string{"insertion", "deletion"} {
		for _, dims := range [][2]uint32{{2, 1}, {1, 2}, {3, 2}} {
			in := map[string]interface{}{"mode": mode, "depth": dims[0], "batch": dims[1]}
			var docs [][]byte
			for k := 0; k < 3; k++ {
				var buf bytes.Buffer
				var nPub int
				if k < 2 {
					build := BuildR1CSInsertion
					if mode == "deletion" {
						build = BuildR1CSDeletion
					}
					cs, err := build(dims[0], dims[1])
					if err != nil {
						verifPSFail("BuildR1CS", err.Error(), in)
						return
					}
					cs.WriteTo(&buf)
					nPub = cs.GetNbPublicVariables()
				} else {
					if dims != [2]uint32{2, 1} {
						continue // one setup per mode is enough for the path comparison
					}
					setup := SetupInsertion
					if mode == "deletion" {
						setup = SetupDeletion
					}
					ps, err := setup(dims[0], dims[1])
					if err != nil {
						verifPSFail("Setup", err.Error(), in)
						return
					}
					ps.ConstraintSystem.WriteTo(&buf)
					nPub = ps.ConstraintSystem.GetNbPublicVariables()
				}
				// gnark counts the constant-one wire among the public variables of an R1CS: one public input means 2
				if nPub != 2 {
					verifPSFail("BuildR1CS", fmt.Sprintf("the constraint system has %d public inputs besides the constant wire, want exactly 1", nPub-1), in)
					return
				}
				docs = append(docs, buf.Bytes())
			}
			for k := 1; k < len(docs); k++ {
				if !bytes.Equal(docs[0], docs[k]) {
					what := "two compilations"
					if k == 2 {
						what = "R1CS export and setup"
					}
					verifPSFail("BuildR1CS", what+" of the same circuit give different constraint systems", in)
					return
				}
			}
		}
	}
	if cs, err := BuildR1CSDeletion(32, 1); err == nil && cs != nil {
		verifPSFail("BuildR1CSDeletion", "a deletion circuit of depth 32 was built (the index encoding holds depth+1 <= 32 bits)", nil)
		return
	}
	fmt.Println("REPLAY-OK compilation is deterministic across paths, one public input, depth 32 deletion refused")
}

// ---------------------------------------------------------------------------------------------------------------
// C15
// ---------------------------------------------------------------------------------------------------------------

func TestVerifReplayC15(t *testing.T) {
	verifDimsInReport = true
	dir, err := os.MkdirTemp("", "verif-c15-")
	if err != nil {
		fmt.Printf("REPLAY-SKIP %v\n", err)
		return
	}
	defer os.RemoveAll(dir)
	ps, err := SetupInsertion(verifDepth, verifBatch)
	if err != nil {
		fmt.Printf("REPLAY-SKIP setup failed: %v\n", err)
		return
	}
	for _, format := range []string{"compressed (WriteTo)", "raw (WriteRawTo)"} {
		var full, pk, vk bytes.Buffer
		if format[0] == 'c' {
			ps.WriteTo(&full)
			ps.ProvingKey.WriteTo(&pk)
			ps.VerifyingKey.WriteTo(&vk)
		} else {
			ps.WriteRawTo(&full)
			ps.ProvingKey.WriteRawTo(&pk)
			ps.VerifyingKey.WriteRawTo(&vk)
		}
		data := full.Bytes()
		n := len(data)
		path := filepath.Join(dir, "keys")
		if err := os.WriteFile(path, data, 0o644); err != nil {
			fmt.Printf("REPLAY-SKIP %v\n", err)
			return
		}
		if _, err := ReadSystemFromFile(path); err != nil {
			verifPSFail("ReadSystemFromFile", "the complete file is rejected: "+err.Error(), map[string]interface{}{"format": format})
			return
		}
		// cut points: the header, both section boundaries (+-2), the last bytes, and an even sample in between
		cuts := map[int]bool{}
		for c := 0; c <= 12; c++ {
			cuts[c] = true
		}
		for _, b := range []int{8 + pk.Len(), 8 + pk.Len() + vk.Len()} {
			for d := -2; d <= 2; d++ {
				cuts[b+d] = true
			}
		}
		for d := 1; d <= 12; d++ {
			cuts[n-d] = true
		}
		for k := 1; k < 24; k++ {
			cuts[k*n/24] = true
		}
		for c := range cuts {
			if c < 0 || c >= n {
				continue
			}
			if err := os.WriteFile(path, data[:c], 0o644); err != nil {
				fmt.Printf("REPLAY-SKIP %v\n", err)
				return
			}
			var got *ProvingSystem
			err := verifGuard(func() (e error) { got, e = ReadSystemFromFile(path); return })
			in := map[string]interface{}{"format": format, "file_length": n, "cut_at": c, "proving_key_end": 8 + pk.Len(), "verifying_key_end": 8 + pk.Len() + vk.Len()}
			if err == nil {
				_ = got
				verifPSFail("ReadSystemFromFile", "a strict prefix of a keys file was accepted", in)
				return
			}
			if len(err.Error()) > 6 && err.Error()[:6] == "panic:" {
				verifPSFail("ReadSystemFromFile", err.Error(), in)
				return
			}
		}
	}
	fmt.Println("REPLAY-OK every sampled strict prefix is rejected in both formats")
}

// ---------------------------------------------------------------------------------------------------------------
// C01 / C02: the compiled circuits (depth 2, batch 2) solved on hand-built witnesses; the input hash is always the
// right one for the values given, so that only the Merkle part of the acceptance predicate decides
// ---------------------------------------------------------------------------------------------------------------

func verifSolveIns(ccs interface {
	IsSolved(w witness.Witness, opts ...backend.ProverOption) error
}, start uint32, pre, post *big.Int, ids []*big.Int, paths [][]big.Int) error {
	var data []byte
	data = binary.BigEndian.AppendUint32(data, start)
	data = append(data, verifP32(pre)...)
	data = append(data, verifP32(post)...)
	a := InsertionMbuCircuit{StartIndex: start, PreRoot: pre, PostRoot: post}
	for i := range ids {
		data = append(data, verifP32(ids[i])...)
		a.IdComms = append(a.IdComms, ids[i])
		var row []frontend.Variable
		for k := range paths[i] {
			row = append(row, new(big.Int).Set(&paths[i][k]))
		}
		a.MerkleProofs = append(a.MerkleProofs, row)
	}
	h := verifKeccak(data)
	a.InputHash = &h
	if verifHashOverride != nil {
		a.InputHash = verifHashOverride(&h)
	}
	w, err := frontend.NewWitness(&a, ecc.BN254.ScalarField())
	if err != nil {
		return err
	}
	return verifGuard(func() error { return ccs.IsSolved(w) })
}

// verifHashOverride, when set, replaces the public input of the witnesses built by verifSolveIns/verifSolveDel
var verifHashOverride func(right *big.Int) *big.Int

func verifSolveDel(ccs interface {
	IsSolved(w witness.Witness, opts ...backend.ProverOption) error
}, idx []uint32, pre, post *big.Int, ids []*big.Int, paths [][]big.Int) error {
	var data []byte
	a := DeletionMbuCircuit{PreRoot: pre, PostRoot: post}
	for i := range idx {
		data = binary.BigEndian.AppendUint32(data, idx[i])
		a.DeletionIndices = append(a.DeletionIndices, idx[i])
		a.IdComms = append(a.IdComms, ids[i])
		var row []frontend.Variable
		for k := range paths[i] {
			row = append(row, new(big.Int).Set(&paths[i][k]))
		}
		a.MerkleProofs = append(a.MerkleProofs, row)
	}
	data = append(data, verifP32(pre)...)
	data = append(data, verifP32(post)...)
	h := verifKeccak(data)
	a.InputHash = &h
	if verifHashOverride != nil {
		a.InputHash = verifHashOverride(&h)
	}
	w, err := frontend.NewWitness(&a, ecc.BN254.ScalarField())
	if err != nil {
		return err
	}
	return verifGuard(func() error { return ccs.IsSolved(w) })
}

// ---------------------------------------------------------------------------------------------------------------
// C03: the public input binds the batch — the compiled circuits accept a valid batch exactly with the Keccak-256 of
// its canonical packing (any representative mod r), and the input hash is the one public input
// ---------------------------------------------------------------------------------------------------------------

func TestVerifReplayC03(t *testing.T) {
	const depth, batch = 2, 2
	ins, err := BuildR1CSInsertion(depth, batch)
	if err != nil {
		fmt.Printf("REPLAY-SKIP compile failed: %v\n", err)
		return
	}
	del, err := BuildR1CSDeletion(depth, batch)
	if err != nil {
		fmt.Printf("REPLAY-SKIP compile failed: %v\n", err)
		return
	}
	for name, cs := range map[string]interface{ GetNbPublicVariables() int }{"insertion": ins, "deletion": del} {
		// gnark counts the constant-one wire among the public variables of an R1CS
		if n := cs.GetNbPublicVariables(); n != 2 {
			verifPSFail("Define", fmt.Sprintf("the %s circuit has %d public inputs, want exactly the input hash", name, n-1), nil)
			return
		}
	}
	defer func() { verifHashOverride = nil }()
	overrides := []struct {
		what   string
		f      func(*big.Int) *big.Int
		accept bool
	}{
		{"the Keccak-256 of the canonical packing", nil, true},
		{"that hash reduced modulo r", func(h *big.Int) *big.Int { return new(big.Int).Mod(h, verifR) }, true},
		{"that hash plus one", func(h *big.Int) *big.Int { return new(big.Int).Add(h, big.NewInt(1)) }, false},
		{"that hash with its top bit flipped", func(h *big.Int) *big.Int { return new(big.Int).Xor(h, new(big.Int).Lsh(big.NewInt(1), 255)) }, false},
		{"that hash with its byte order reversed", func(h *big.Int) *big.Int { return new(big.Int).SetBytes(toBytesLE(verifP32(h))) }, false},
		{"zero", func(h *big.Int) *big.Int { return big.NewInt(0) }, false},
	}
	for _, start := range []int{0, 1, 2} {
		t := verifNewRefTree(depth)
		for i := 0; i < start; i++ {
			t.leaves[i] = big.NewInt(int64(1000 + i))
		}
		pre := t.root()
		var ids []*big.Int
		var paths [][]big.Int
		for i := 0; i < batch; i++ {
			paths = append(paths, t.path(start+i))
			v := new(big.Int).Lsh(big.NewInt(int64(0x0102+i)), uint(200*i)) // different byte lengths
			ids = append(ids, v)
			t.leaves[start+i] = v
		}
		post := t.root()
		for _, o := range overrides {
			verifHashOverride = o.f
			err := verifSolveIns(ins, uint32(start), &pre, &post, ids, paths)
			in := map[string]interface{}{"mode": "insertion", "tree_depth": depth, "batch_size": batch, "startIndex": start, "preRoot": pre.String(), "postRoot": post.String(), "identityCommitments": fmt.Sprint(ids)}
			if o.accept && err != nil {
				verifPSFail("InsertionMbuCircuit.Define", "a valid batch is rejected with public input "+o.what+": "+err.Error(), in)
				return
			}
			if !o.accept && err == nil {
				verifPSFail("InsertionMbuCircuit.Define", "a valid batch is accepted with public input "+o.what, in)
				return
			}
		}
	}
	for _, idx := range [][]uint32{{0, 1}, {3, 1}, {2, 4}, {1, 7}} {
		t := verifNewRefTree(depth)
		for i := range t.leaves {
			t.leaves[i] = big.NewInt(int64(7 + i))
		}
		pre := t.root()
		var ids []*big.Int
		var paths [][]big.Int
		for _, ix := range idx {
			pos := int(ix) % (1 << depth)
			ids = append(ids, new(big.Int).Set(t.leaves[pos]))
			paths = append(paths, t.path(pos))
			if ix < 1<<depth {
				t.leaves[pos] = big.NewInt(0)
			}
		}
		post := t.root()
		for _, o := range overrides {
			verifHashOverride = o.f
			err := verifSolveDel(del, idx, &pre, &post, ids, paths)
			in := map[string]interface{}{"mode": "deletion", "tree_depth": depth, "batch_size": batch, "deletionIndices": idx, "preRoot": pre.String(), "postRoot": post.String()}
			if o.accept && err != nil {
				verifPSFail("DeletionMbuCircuit.Define", "a valid batch is rejected with public input "+o.what+": "+err.Error(), in)
				return
			}
			if !o.accept && err == nil {
				verifPSFail("DeletionMbuCircuit.Define", "a valid batch is accepted with public input "+o.what, in)
				return
			}
		}
	}
	fmt.Println("REPLAY-OK valid batches are accepted exactly with the Keccak-256 of their canonical packing; one public input")
}

// ---------------------------------------------------------------------------------------------------------------
// C06: the bit-encoding gadgets on gnark's test engine (honest hints)
// ---------------------------------------------------------------------------------------------------------------

type verifC06Circuit struct {
	V    frontend.Variable
	Bits []frontend.Variable // expected output of ToReducedBigEndian
	Size int
	Only bool // only run the gadget (is the value accepted at all?), compare nothing
}

func (c *verifC06Circuit) Define(api frontend.API) error {
	out := ToReducedBigEndian{Variable: c.V, Size: c.Size}.DefineGadget(api).([]frontend.Variable)
	if c.Only {
		return nil
	}
	if len(out) != len(c.Bits) {
		return fmt.Errorf("ToReducedBigEndian returned %d bits for size %d", len(out), c.Size)
	}
	for i := range out {
		api.AssertIsEqual(out[i], c.Bits[i])
	}
	back := FromBinaryBigEndian{Variable: out}.DefineGadget(api).(frontend.Variable)
	api.AssertIsEqual(back, c.V)
	return nil
}

type verifC06From struct {
	Bits []frontend.Variable
	Want frontend.Variable
}

func (c *verifC06From) Define(api frontend.API) error {
	api.AssertIsEqual(FromBinaryBigEndian{Variable: c.Bits}.DefineGadget(api).(frontend.Variable), c.Want)
	return nil
}

type verifC06Check struct {
	Bits []frontend.Variable
}

func (c *verifC06Check) Define(api frontend.API) error {
	ReducedModRCheck{Input: c.Bits}.DefineGadget(api)
	return nil
}

// verifBEBits: the bit pattern the property describes — bytes most significant first, bits inside a byte least
// significant first
func verifBEBits(v *big.Int, size int) []frontend.Variable {
	out := make([]frontend.Variable, size)
	nb := size / 8
	for j := 0; j < nb; j++ {
		for k := 0; k < 8; k++ {
			out[8*j+k] = v.Bit(8*(nb-1-j) + k)
		}
	}
	return out
}

func TestVerifReplayC06(t *testing.T) {
	field := ecc.BN254.ScalarField()
	solved := func(c, w frontend.Circuit) error { return verifGuard(func() error { return test.IsSolved(c, w, field) }) }
	two := func(k uint) *big.Int { return new(big.Int).Lsh(big.NewInt(1), k) }
	rm1 := new(big.Int).Sub(verifR, big.NewInt(1))
	weird, _ := new(big.Int).SetString("0102030405060708090a0b0c0d0e0f101112131415161718191a1b1c1d1e1f", 16)
	for _, tc := range []struct {
		v      *big.Int
		size   int
		accept bool
	}{
		{big.NewInt(0), 256, true}, {big.NewInt(1), 256, true}, {big.NewInt(255), 256, true}, {big.NewInt(256), 256, true}, {rm1, 256, true}, {weird, 256, true}, {two(253), 256, true},
		{big.NewInt(0), 32, true}, {big.NewInt(0x01020304), 32, true}, {new(big.Int).Sub(two(32), big.NewInt(1)), 32, true},
		{two(32), 32, false}, {new(big.Int).Add(two(32), big.NewInt(5)), 32, false}, {rm1, 32, false},
		{big.NewInt(0xabcd), 16, true}, {two(16), 16, false},
	} {
		bits := verifBEBits(tc.v, tc.size)
		err := solved(&verifC06Circuit{Bits: make([]frontend.Variable, tc.size), Size: tc.size, Only: !tc.accept}, &verifC06Circuit{V: tc.v, Bits: bits, Size: tc.size, Only: !tc.accept})
		in := map[string]interface{}{"value": tc.v.String(), "size": tc.size}
		if tc.accept && err != nil {
			verifPSFail("ToReducedBigEndian", "the big-endian bit pattern of a value that fits is not what the gadget returns (or it does not recompose): "+err.Error(), in)
			return
		}
		if !tc.accept && err == nil {
			verifPSFail("ToReducedBigEndian", "a value that does not fit the width is accepted", in)
			return
		}
	}
	// FromBinaryBigEndian on arbitrary patterns (also of numbers >= r): the number modulo r
	max := new(big.Int).Sub(two(256), big.NewInt(1))
	for _, w := range []*big.Int{big.NewInt(0), weird, rm1, verifR, new(big.Int).Add(verifR, big.NewInt(5)), max} {
		bits := verifBEBits(w, 256)
		want := new(big.Int).Mod(w, verifR)
		if err := solved(&verifC06From{Bits: make([]frontend.Variable, 256)}, &verifC06From{Bits: bits, Want: want}); err != nil {
			verifPSFail("FromBinaryBigEndian", "the value of a big-endian bit pattern is not the number it spells (mod r): "+err.Error(), map[string]interface{}{"number": w.String()})
			return
		}
	}
	// ReducedModRCheck on little-endian bit arrays of 254 and 256 bits: accepted iff the number is below r
	for _, n := range []int{254, 256} {
		for _, tc := range []struct {
			w      *big.Int
			accept bool
		}{{big.NewInt(0), true}, {big.NewInt(1), true}, {rm1, true}, {new(big.Int).Sub(verifR, big.NewInt(2)), true}, {two(253), true},
			{verifR, false}, {new(big.Int).Add(verifR, big.NewInt(1)), false}, {new(big.Int).Sub(two(254), big.NewInt(1)), false}, {max, false}, {two(255), false}} {
			if tc.w.BitLen() > n {
				continue
			}
			bits := make([]frontend.Variable, n)
			for i := range bits {
				bits[i] = tc.w.Bit(i)
			}
			err := solved(&verifC06Check{Bits: make([]frontend.Variable, n)}, &verifC06Check{Bits: bits})
			in := map[string]interface{}{"number": tc.w.String(), "bits": n}
			if tc.accept && err != nil {
				verifPSFail("ReducedModRCheck", "a number below r is rejected: "+err.Error(), in)
				return
			}
			if !tc.accept && err == nil {
				verifPSFail("ReducedModRCheck", "a number of at least r is accepted", in)
				return
			}
		}
	}
	fmt.Println("REPLAY-OK bit patterns are big-endian, recompose, and only canonical representatives pass")
}

func TestVerifReplayC01(t *testing.T) {
	const depth, batch = 2, 2
	ccs, err := BuildR1CSInsertion(depth, batch)
	if err != nil {
		fmt.Printf("REPLAY-SKIP compile failed: %v\n", err)
		return
	}
	// build: a tree whose leaves below `filled` are occupied; insert ids at start, start+1 (indices taken modulo the
	// tree size for the reference so that out-of-range starts can be expressed)
	type batchT struct {
		pre, post *big.Int
		ids       []*big.Int
		paths     [][]big.Int
	}
	mk := func(filled, start int) batchT {
		t := verifNewRefTree(depth)
		for i := 0; i < filled; i++ {
			t.leaves[i] = big.NewInt(int64(1000 + i))
		}
		var b batchT
		r := t.root()
		b.pre = &r
		for i := 0; i < batch; i++ {
			pos := (start + i) % (1 << depth)
			b.paths = append(b.paths, t.path(pos))
			v := big.NewInt(int64(41 + i))
			b.ids = append(b.ids, v)
			t.leaves[pos] = v
		}
		r2 := t.root()
		b.post = &r2
		return b
	}
	report := func(what string, start uint32, b batchT, accepted bool, err error) {
		in := map[string]interface{}{"tree_depth": depth, "batch_size": batch, "startIndex": start, "preRoot": b.pre.String(), "postRoot": b.post.String(),
			"identityCommitments": fmt.Sprint(b.ids), "merkleProofs": fmt.Sprint(b.paths)}
		if accepted {
			verifPSFail("InsertionMbuCircuit.Define", "the circuit is satisfied by "+what, in)
		} else {
			verifPSFail("InsertionMbuCircuit.Define", "the circuit rejects "+what+": "+err.Error(), in)
		}
	}
	for start := 0; start+batch <= 1<<depth; start++ {
		b := mk(start, start)
		if err := verifSolveIns(ccs, uint32(start), b.pre, b.post, b.ids, b.paths); err != nil {
			report(fmt.Sprintf("a valid append of %d commitments at index %d", batch, start), uint32(start), b, false, err)
			return
		}
		// the same batch announced at an aliased start index (start + 2^depth, start + 2^(depth+1))
		for _, alias := range []int{1 << depth, 1 << (depth + 1), 1 << 31} {
			if err := verifSolveIns(ccs, uint32(start+alias), b.pre, b.post, b.ids, b.paths); err == nil {
				report("a batch whose start index lies outside the tree (it aliases a genuine append)", uint32(start+alias), b, true, nil)
				return
			}
		}
		wrong := b
		wrong.post = new(big.Int).Add(b.post, big.NewInt(1))
		if err := verifSolveIns(ccs, uint32(start), wrong.pre, wrong.post, wrong.ids, wrong.paths); err == nil {
			report("a batch with a wrong post-root", uint32(start), wrong, true, nil)
			return
		}
		sw := b
		sw.paths = [][]big.Int{b.paths[1], b.paths[0]}
		if !(fmt.Sprint(b.paths[0]) == fmt.Sprint(b.paths[1])) {
			if err := verifSolveIns(ccs, uint32(start), sw.pre, sw.post, sw.ids, sw.paths); err == nil {
				report("a batch whose Merkle proofs are exchanged", uint32(start), sw, true, nil)
				return
			}
		}
	}
	// occupied target: leaf `start` already holds a value and is overwritten with a genuine path
	for start := 0; start+batch <= 1<<depth; start++ {
		b := mk(start+1, start)
		if err := verifSolveIns(ccs, uint32(start), b.pre, b.post, b.ids, b.paths); err == nil {
			report("a batch that overwrites an occupied leaf", uint32(start), b, true, nil)
			return
		}
	}
	// a zero commitment does not excuse its slot from the empty-leaf proof: first slot genuine, second slot 0 with an
	// arbitrary path, post-root as after the first insertion alone
	for start := 0; start+batch <= 1<<depth; start++ {
		t := verifNewRefTree(depth)
		for i := 0; i < start; i++ {
			t.leaves[i] = big.NewInt(int64(1000 + i))
		}
		var b batchT
		r := t.root()
		b.pre = &r
		b.paths = append(b.paths, t.path(start))
		b.ids = append(b.ids, big.NewInt(41))
		t.leaves[start] = big.NewInt(41)
		b.paths = append(b.paths, []big.Int{*big.NewInt(13), *big.NewInt(13)})
		b.ids = append(b.ids, big.NewInt(0))
		r2 := t.root()
		b.post = &r2
		if err := verifSolveIns(ccs, uint32(start), b.pre, b.post, b.ids, b.paths); err == nil {
			report("a batch whose second slot is a zero commitment with an arbitrary path", uint32(start), b, true, nil)
			return
		}
	}
	// a batch that runs past the last leaf (its second slot wraps around to leaf 0, which is empty)
	{
		t := verifNewRefTree(depth)
		t.leaves[1], t.leaves[2] = big.NewInt(1001), big.NewInt(1002)
		var b batchT
		r := t.root()
		b.pre = &r
		for i, pos := range []int{3, 0} {
			b.paths = append(b.paths, t.path(pos))
			v := big.NewInt(int64(41 + i))
			b.ids = append(b.ids, v)
			t.leaves[pos] = v
		}
		r2 := t.root()
		b.post = &r2
		if err := verifSolveIns(ccs, 3, b.pre, b.post, b.ids, b.paths); err == nil {
			report("a batch that runs past the last leaf", 3, b, true, nil)
			return
		}
	}
	fmt.Println("REPLAY-OK valid appends are accepted; aliased, overwriting, overrunning and wrong-root batches are rejected")
}

func TestVerifReplayC02(t *testing.T) {
	const depth, batch = 2, 2
	ccs, err := BuildR1CSDeletion(depth, batch)
	if err != nil {
		fmt.Printf("REPLAY-SKIP compile failed: %v\n", err)
		return
	}
	full := func() *verifRefTree {
		t := verifNewRefTree(depth)
		for i := range t.leaves {
			t.leaves[i] = big.NewInt(int64(7 + i))
		}
		return t
	}
	type slot struct {
		idx    uint32
		id     *big.Int
		path   []big.Int
		delete bool // the reference deletes leaf idx (mod tree size) after this slot
	}
	run := func(slots []slot) (pre, post *big.Int, idx []uint32, ids []*big.Int, paths [][]big.Int) {
		t := full()
		r := t.root()
		pre = &r
		for _, s := range slots {
			pos := int(s.idx) % (1 << depth)
			id, path := s.id, s.path
			if id == nil {
				id = new(big.Int).Set(t.leaves[pos])
			}
			if path == nil {
				path = t.path(pos)
			}
			idx = append(idx, s.idx)
			ids = append(ids, id)
			paths = append(paths, path)
			if s.delete {
				t.leaves[pos] = big.NewInt(0)
			}
		}
		r2 := t.root()
		post = &r2
		return
	}
	bogus := []big.Int{*big.NewInt(13), *big.NewInt(13)}
	type caseT struct {
		what   string
		slots  []slot
		accept bool
	}
	cases := []caseT{
		{"a valid deletion of leaves 0 and 1", []slot{{0, nil, nil, true}, {1, nil, nil, true}}, true},
		{"a valid deletion of leaves 3 and 0", []slot{{3, nil, nil, true}, {0, nil, nil, true}}, true},
		{"a valid deletion of leaves 1 and 3", []slot{{1, nil, nil, true}, {3, nil, nil, true}}, true},
		{"a deletion of leaf 1 followed by a padding slot (index 2^depth, arbitrary commitment and path)", []slot{{1, nil, nil, true}, {4, big.NewInt(12345), bogus, false}}, true},
		{"a padding slot followed by a deletion of leaf 2", []slot{{4, big.NewInt(0), bogus, false}, {2, nil, nil, true}}, true},
		{"two padding slots, root unchanged", []slot{{4, big.NewInt(5), bogus, false}, {7, big.NewInt(0), bogus, false}}, true},
		{"a padding slot (index 2^depth + 2) carrying a genuine membership proof, root unchanged by it", []slot{{1, nil, nil, true}, {6, nil, nil, false}}, true},
		{"a padding slot (index 2^depth + 2) carrying a genuine membership proof that does change the root", []slot{{1, nil, nil, true}, {6, nil, nil, true}}, false},
		{"a deletion with a commitment that is not the leaf", []slot{{1, big.NewInt(999), nil, true}, {2, nil, nil, true}}, false},
		{"a deletion index beyond 2^(depth+1) that aliases leaf 1", []slot{{9, nil, nil, true}, {2, nil, nil, true}}, false},
		{"a deletion index beyond 2^(depth+1) in a padding position (12)", []slot{{1, nil, nil, true}, {12, big.NewInt(5), bogus, false}}, false},
		{"an in-range slot presenting commitment 0 with an arbitrary path, root carried over", []slot{{0, nil, nil, true}, {2, big.NewInt(0), bogus, false}}, false},
		{"an in-range slot whose leaf is kept although a genuine proof is given", []slot{{0, nil, nil, true}, {2, nil, nil, false}}, false},
	}
	for _, c := range cases {
		pre, post, idx, ids, paths := run(c.slots)
		err := verifSolveDel(ccs, idx, pre, post, ids, paths)
		in := map[string]interface{}{"tree_depth": depth, "batch_size": batch, "deletionIndices": idx, "preRoot": pre.String(), "postRoot": post.String(),
			"identityCommitments": fmt.Sprint(ids), "merkleProofs": fmt.Sprint(paths)}
		if c.accept && err != nil {
			verifPSFail("DeletionMbuCircuit.Define", "the circuit rejects "+c.what+": "+err.Error(), in)
			return
		}
		if !c.accept && err == nil {
			verifPSFail("DeletionMbuCircuit.Define", "the circuit is satisfied by "+c.what, in)
			return
		}
	}
	// wrong post-root on a valid batch
	pre, post, idx, ids, paths := run(cases[0].slots)
	if err := verifSolveDel(ccs, idx, pre, new(big.Int).Add(post, big.NewInt(1)), ids, paths); err == nil {
		verifPSFail("DeletionMbuCircuit.Define", "the circuit is satisfied by a valid deletion with a wrong post-root", nil)
		return
	}
	fmt.Println("REPLAY-OK valid deletions and padding slots are accepted as no-ops; foreign commitments, out-of-range indices and skipped deletions are rejected")
}
