package keccak

// Replay harness for C04 (injected with go test -overlay; never written into /repo).
// Runs the real NewKeccak256 / NewSHA3_256 gadgets on gnark's test engine over messages of 0 … 273 bytes around the
// rate boundaries (135, 136, 137, 271, 272 bytes) and compares every digest bit with golang.org/x/crypto/sha3.

import (
	"encoding/json"
	"fmt"
	"testing"

	"github.com/consensys/gnark-crypto/ecc"
	"github.com/consensys/gnark/frontend"
	"github.com/consensys/gnark/test"
	"golang.org/x/crypto/sha3"
)

type verifKeccakCircuit struct {
	In   []frontend.Variable
	Out  [256]frontend.Variable
	SHA3 bool
}

func (c *verifKeccakCircuit) Define(api frontend.API) error {
	var h []frontend.Variable
	if c.SHA3 {
		h = NewSHA3_256(api, len(c.In), c.In...)
	} else {
		h = NewKeccak256(api, len(c.In), c.In...)
	}
	if len(h) != 256 {
		return fmt.Errorf("digest of %d bits", len(h))
	}
	for i := range h {
		api.AssertIsEqual(h[i], c.Out[i])
	}
	return nil
}

func verifBitsOf(b []byte) []frontend.Variable {
	out := make([]frontend.Variable, 8*len(b))
	for j := range b {
		for k := 0; k < 8; k++ {
			out[8*j+k] = int((b[j] >> uint(k)) & 1)
		}
	}
	return out
}

func TestVerifReplayC04(t *testing.T) {
	for _, n := range []int{0, 1, 8, 100, 134, 135, 136, 137, 200, 271, 272, 273} {
		msg := make([]byte, n)
		for i := range msg {
			msg[i] = byte(31*i + 7*n + 1)
		}
		for _, isSHA := range []bool{false, true} {
			hh := sha3.NewLegacyKeccak256()
			name := "NewKeccak256"
			if isSHA {
				hh = sha3.New256()
				name = "NewSHA3_256"
			}
			hh.Write(msg)
			want := hh.Sum(nil)
			w := &verifKeccakCircuit{In: verifBitsOf(msg), SHA3: isSHA}
			copy(w.Out[:], verifBitsOf(want))
			var err error
			func() {
				defer func() {
					if r := recover(); r != nil {
						err = fmt.Errorf("panic: %v", r)
					}
				}()
				err = test.IsSolved(&verifKeccakCircuit{In: make([]frontend.Variable, 8*n), SHA3: isSHA}, w, ecc.BN254.ScalarField())
			}()
			if err != nil {
				b, _ := json.Marshal(map[string]interface{}{"function": name, "message_bytes": n, "message_hex": fmt.Sprintf("%x", msg), "reference_digest": fmt.Sprintf("%x", want),
					"error": "the gadget's digest differs from golang.org/x/crypto/sha3: " + err.Error()})
				fmt.Printf("REPLAY-FAIL %s\n", b)
				return
			}
		}
	}
	fmt.Println("REPLAY-OK both gadgets agree with x/crypto on all message lengths tried")
}
