package server

// Replay harnesses for C09 and C20 (injected with go test -overlay; never written into /repo).
// Starts the real servers with server.Run on two free loopback ports over a real insertion proving system (depth 2,
// batch 1), drives /prove with a fixed sequence of requests (other methods, malformed bodies, trailing data, wrong
// dimensions, an invalid batch, valid batches) and checks every answer against the documented status and code (C09);
// then compares the request counters and the in-flight gauge of /metrics with the client's own tally (C20).
// Valid parameter documents are built from an independent dense Poseidon tree (iden3) and an independent packing +
// x/crypto Keccak-256, not with the repository's helpers.

import (
	"bytes"
	"encoding/binary"
	"encoding/json"
	"fmt"
	"io"
	"math/big"
	"net"
	"net/http"
	"regexp"
	"strings"
	"testing"
	"time"

	"worldcoin/gnark-mbu/prover"

	"github.com/iden3/go-iden3-crypto/poseidon"
	"golang.org/x/crypto/sha3"
)

func verifSrvFail(function, what string, extra map[string]interface{}) {
	m := map[string]interface{}{"function": function, "error": what}
	for k, v := range extra {
		m[k] = v
	}
	b, _ := json.Marshal(m)
	fmt.Printf("REPLAY-FAIL %s\n", b)
}

func verifSH(a, b *big.Int) *big.Int {
	h, err := poseidon.Hash([]*big.Int{a, b})
	if err != nil {
		panic(err)
	}
	return h
}

func verifRoot(leaves []*big.Int) *big.Int {
	cur := leaves
	for len(cur) > 1 {
		var next []*big.Int
		for i := 0; i < len(cur); i += 2 {
			next = append(next, verifSH(cur[i], cur[i+1]))
		}
		cur = next
	}
	return cur[0]
}

func verifPathOf(leaves []*big.Int, i int) []*big.Int {
	var p []*big.Int
	cur := leaves
	for len(cur) > 1 {
		p = append(p, cur[i^1])
		var next []*big.Int
		for k := 0; k < len(cur); k += 2 {
			next = append(next, verifSH(cur[k], cur[k+1]))
		}
		cur = next
		i >>= 1
	}
	return p
}

func verifHex(v *big.Int) string { return "0x" + v.Text(16) }

// verifDoc: an insertion parameter document for one commitment val at index start of a tree of the given depth whose
// leaves below start are occupied; corrupt != 0 adds it to the post-root (an invalid batch with a matching hash).
func verifDoc(depth, start int, val int64, corrupt int64) (string, *big.Int) {
	leaves := make([]*big.Int, 1<<uint(depth))
	for i := range leaves {
		leaves[i] = big.NewInt(0)
		if i < start {
			leaves[i] = big.NewInt(int64(100 + i))
		}
	}
	pre := verifRoot(leaves)
	path := verifPathOf(leaves, start)
	leaves[start] = big.NewInt(val)
	post := new(big.Int).Add(verifRoot(leaves), big.NewInt(corrupt))
	var data []byte
	data = binary.BigEndian.AppendUint32(data, uint32(start))
	data = append(data, pre.FillBytes(make([]byte, 32))...)
	data = append(data, post.FillBytes(make([]byte, 32))...)
	data = append(data, big.NewInt(val).FillBytes(make([]byte, 32))...)
	h := sha3.NewLegacyKeccak256()
	h.Write(data)
	hash := new(big.Int).SetBytes(h.Sum(nil))
	var ps []string
	for _, s := range path {
		ps = append(ps, `"`+verifHex(s)+`"`)
	}
	doc := fmt.Sprintf(`{"inputHash":"%s","startIndex":%d,"preRoot":"%s","postRoot":"%s","identityCommitments":["%s"],"merkleProofs":[[%s]]}`,
		verifHex(hash), start, verifHex(pre), verifHex(post), verifHex(big.NewInt(val)), strings.Join(ps, ","))
	return doc, hash
}

// verifDelDoc: a deletion parameter document (depth 2, two slots) over the full tree 7,8,9,10; extra[i] siblings are
// appended to (extra[i] > 0) or dropped from (extra[i] < 0) row i to make the proofs ragged
func verifDelDoc(idx [2]int, extra [2]int) (string, *big.Int) {
	leaves := []*big.Int{big.NewInt(7), big.NewInt(8), big.NewInt(9), big.NewInt(10)}
	pre := verifRoot(leaves)
	var rows, ids []string
	var data []byte
	for i, ix := range idx {
		data = binary.BigEndian.AppendUint32(data, uint32(ix))
		path := verifPathOf(leaves, ix)
		var ps []string
		for _, s := range path {
			ps = append(ps, `"`+verifHex(s)+`"`)
		}
		for k := 0; k < extra[i]; k++ {
			ps = append(ps, `"0x0"`)
		}
		if extra[i] < 0 {
			ps = ps[:len(ps)+extra[i]]
		}
		rows = append(rows, "["+strings.Join(ps, ",")+"]")
		ids = append(ids, `"`+verifHex(leaves[ix])+`"`)
		leaves[ix] = big.NewInt(0)
	}
	post := verifRoot(leaves)
	data = append(data, pre.FillBytes(make([]byte, 32))...)
	data = append(data, post.FillBytes(make([]byte, 32))...)
	h := sha3.NewLegacyKeccak256()
	h.Write(data)
	hash := new(big.Int).SetBytes(h.Sum(nil))
	doc := fmt.Sprintf(`{"inputHash":"%s","deletionIndices":[%d,%d],"preRoot":"%s","postRoot":"%s","identityCommitments":[%s],"merkleProofs":[%s]}`,
		verifHex(hash), idx[0], idx[1], verifHex(pre), verifHex(post), strings.Join(ids, ","), strings.Join(rows, ","))
	return doc, hash
}

func verifFreeAddr() string {
	l, err := net.Listen("tcp", "127.0.0.1:0")
	if err != nil {
		panic(err)
	}
	defer l.Close()
	return l.Addr().String()
}

type verifReq struct {
	Method, Body string
	Status      int
	Code        string // expected error code ("" for 200/405)
	Hash        *big.Int
	What        string
}

func verifDrive(t *testing.T, checkMetrics bool) {
	if verifDriveMode(InsertionMode, checkMetrics) && !checkMetrics {
		verifDriveMode(DeletionMode, false)
	}
}

func verifDriveMode(mode string, checkMetrics bool) bool {
	var ps *prover.ProvingSystem
	var err error
	if mode == InsertionMode {
		ps, err = prover.SetupInsertion(2, 1)
	} else {
		ps, err = prover.SetupDeletion(2, 2)
	}
	if err != nil {
		fmt.Printf("REPLAY-SKIP setup failed: %v\n", err)
		return false
	}
	cfg := Config{ProverAddress: verifFreeAddr(), MetricsAddress: verifFreeAddr(), Mode: mode}
	job := Run(&cfg, ps)
	defer func() {
		job.RequestStop()
		job.AwaitStop()
	}()
	client := &http.Client{Timeout: 120 * time.Second}
	url := "http://" + cfg.ProverAddress + "/prove"
	for i := 0; i < 100; i++ {
		if c, err := net.Dial("tcp", cfg.ProverAddress); err == nil {
			c.Close()
			break
		}
		time.Sleep(50 * time.Millisecond)
	}
	valid1, hash1 := verifDoc(2, 0, 5, 0)
	valid2, hash2 := verifDoc(2, 3, 77, 0)
	wrongDims, _ := verifDoc(3, 0, 5, 0)
	invalid, _ := verifDoc(2, 1, 5, 1)
	reqs := []verifReq{
		{"GET", "", 405, "", nil, "GET"},
		{"PUT", valid1, 405, "", nil, "PUT with a valid document"},
		{"DELETE", "", 405, "", nil, "DELETE"},
		{"POST", "", 400, "malformed_body", nil, "empty body"},
		{"POST", "not json at all", 400, "malformed_body", nil, "arbitrary bytes"},
		{"POST", valid1[:len(valid1)/2], 400, "malformed_body", nil, "truncated document"},
		{"POST", valid1 + "]", 400, "malformed_body", nil, "valid document followed by a stray bracket"},
		{"POST", valid1 + valid1, 400, "malformed_body", nil, "two documents"},
		{"POST", strings.Replace(valid1, `"startIndex":0`, `"startIndex":4294967296`, 1), 400, "malformed_body", nil, "start index outside 32 bits"},
		{"POST", strings.Replace(valid1, `"preRoot":"0x`, `"preRoot":"zz`, 1), 400, "malformed_body", nil, "non-numeric pre-root"},
		{"POST", strings.Replace(valid1, `"identityCommitments":["0x5"]`, `"identityCommitments":[5]`, 1), 400, "malformed_body", nil, "ill-typed commitment"},
		{"POST", wrongDims, 400, "proving_error", nil, "well-formed document of depth 3 for a depth-2 system"},
		{"POST", invalid, 400, "proving_error", nil, "well-formed document that does not describe a valid batch"},
		{"POST", valid1, 200, "", hash1, "valid batch"},
		{"POST", invalid, 400, "proving_error", nil, "invalid batch after a valid one"},
		{"POST", valid2, 200, "", hash2, "second valid batch (last leaf)"},
	}
	if mode == DeletionMode {
		dv1, dh1 := verifDelDoc([2]int{1, 3}, [2]int{0, 0})
		dv2, dh2 := verifDelDoc([2]int{2, 0}, [2]int{0, 0})
		longer, _ := verifDelDoc([2]int{1, 3}, [2]int{0, 1})
		shorter, _ := verifDelDoc([2]int{1, 3}, [2]int{0, -1})
		firstShort, _ := verifDelDoc([2]int{1, 3}, [2]int{-1, 0})
		reqs = []verifReq{
			{"POST", dv1, 200, "", dh1, "valid deletion batch"},
			{"POST", longer, 400, "proving_error", nil, "merkleProofs whose second row has one sibling too many"},
			{"POST", shorter, 400, "proving_error", nil, "merkleProofs whose second row has one sibling too few"},
			{"POST", firstShort, 400, "proving_error", nil, "merkleProofs whose first row has one sibling too few"},
			{"POST", strings.Replace(dv1, `"deletionIndices":[1,3]`, `"deletionIndices":[1,4294967296]`, 1), 400, "malformed_body", nil, "deletion index outside 32 bits"},
			{"POST", dv2, 200, "", dh2, "second valid deletion batch"},
		}
	}
	tally := map[string]int{}
	for _, rq := range reqs {
		in := map[string]interface{}{"mode": mode, "request": rq.What, "method": rq.Method, "body": rq.Body}
		hr, _ := http.NewRequest(rq.Method, url, bytes.NewReader([]byte(rq.Body)))
		resp, err := client.Do(hr)
		if err != nil {
			verifSrvFail("proveHandler.ServeHTTP", "no answer: "+err.Error(), in)
			return false
		}
		body, _ := io.ReadAll(resp.Body)
		resp.Body.Close()
		tally[fmt.Sprintf("%s %d", strings.ToLower(rq.Method), resp.StatusCode)]++
		in["status"] = resp.StatusCode
		in["answer"] = string(body)
		if resp.StatusCode != rq.Status {
			verifSrvFail("proveHandler.ServeHTTP", fmt.Sprintf("status %d, documented %d", resp.StatusCode, rq.Status), in)
			return false
		}
		if rq.Code != "" {
			var e map[string]string
			if json.Unmarshal(body, &e) != nil || e["code"] != rq.Code {
				verifSrvFail("proveHandler.ServeHTTP", fmt.Sprintf("error code %q, documented %q", e["code"], rq.Code), in)
				return false
			}
		}
		if rq.Status == 200 {
			var proof prover.Proof
			if err := json.Unmarshal(body, &proof); err != nil {
				verifSrvFail("proveHandler.ServeHTTP", "the 200 body is not a proof: "+err.Error(), in)
				return false
			}
			verify := ps.VerifyInsertion
			if mode == DeletionMode {
				verify = ps.VerifyDeletion
			}
			if err := verify(*rq.Hash, &proof); err != nil {
				verifSrvFail("proveHandler.ServeHTTP", "the returned proof does not verify against the request's input hash: "+err.Error(), in)
				return false
			}
		}
	}
	if !checkMetrics {
		if mode == DeletionMode {
			fmt.Println("REPLAY-OK every request got the documented status and code; proofs verify")
		}
		return true
	}
	// C20: counters by (method, code) equal the client's tally, nothing else is counted, the gauge is back to 0
	lineRe := regexp.MustCompile(`^http_requests_total\{([^}]*)\} ([0-9.e+]+)$`)
	var last string
	for attempt := 0; attempt < 50; attempt++ {
		resp, err := client.Get("http://" + cfg.MetricsAddress + "/metrics")
		if err != nil {
			verifSrvFail("server.Run", "/metrics does not answer: "+err.Error(), nil)
			return false
		}
		b, _ := io.ReadAll(resp.Body)
		resp.Body.Close()
		got := map[string]int{}
		inflight := -1
		for _, l := range strings.Split(string(b), "\n") {
			if m := lineRe.FindStringSubmatch(l); m != nil && strings.Contains(m[1], `endpoint_pattern="/prove"`) {
				var code, method string
				for _, kv := range strings.Split(m[1], ",") {
					p := strings.SplitN(kv, "=", 2)
					if p[0] == "code" {
						code = strings.Trim(p[1], `"`)
					}
					if p[0] == "method" {
						method = strings.Trim(p[1], `"`)
					}
				}
				var n float64
				fmt.Sscan(m[2], &n)
				got[method+" "+code] += int(n)
			}
			if strings.HasPrefix(l, "http_requests_in_flight{") && strings.Contains(l, `endpoint_pattern="/prove"`) {
				var n float64
				fmt.Sscan(l[strings.LastIndex(l, " ")+1:], &n)
				inflight = int(n)
			}
		}
		same := inflight == 0 && len(got) == len(tally)
		for k, v := range tally {
			same = same && got[k] == v
		}
		last = fmt.Sprintf("counters %v, in-flight gauge %d; the client saw %v", got, inflight, tally)
		if same {
			fmt.Println("REPLAY-OK the request counters and the in-flight gauge agree with the client's tally")
			return true
		}
		time.Sleep(100 * time.Millisecond)
	}
	verifSrvFail("server.Run", "/metrics disagrees with the client's tally: "+last, nil)
	return false
}

func TestVerifReplayC09(t *testing.T) { verifDrive(t, false) }
func TestVerifReplayC20(t *testing.T) { verifDrive(t, true) }

// ---------------------------------------------------------------------------------------------------------------
// C13: overlapping requests each get their own answer
// ---------------------------------------------------------------------------------------------------------------

func TestVerifReplayC13(t *testing.T) {
	ps, err := prover.SetupInsertion(2, 1)
	if err != nil {
		fmt.Printf("REPLAY-SKIP setup failed: %v\n", err)
		return
	}
	cfg := Config{ProverAddress: verifFreeAddr(), MetricsAddress: verifFreeAddr(), Mode: InsertionMode}
	job := Run(&cfg, ps)
	defer func() {
		job.RequestStop()
		job.AwaitStop()
	}()
	for i := 0; i < 100; i++ {
		if c, err := net.Dial("tcp", cfg.ProverAddress); err == nil {
			c.Close()
			break
		}
		time.Sleep(50 * time.Millisecond)
	}
	url := "http://" + cfg.ProverAddress + "/prove"
	type job1 struct {
		doc   string
		hash  *big.Int
		valid bool
		what  string
	}
	var jobs []job1
	for start := 0; start < 4; start++ {
		doc, hash := verifDoc(2, start, int64(5+start), 0)
		jobs = append(jobs, job1{doc, hash, true, fmt.Sprintf("valid batch at index %d", start)})
		// the same tree transition announced with a different input hash: not a valid batch
		wrong := "0x" + new(big.Int).Add(hash, big.NewInt(1)).Text(16)
		jobs = append(jobs, job1{strings.Replace(doc, verifHex(hash), wrong, 1), nil, false, fmt.Sprintf("the batch at index %d with a wrong input hash", start)})
		bad, _ := verifDoc(2, start, int64(5+start), 1)
		jobs = append(jobs, job1{bad, nil, false, fmt.Sprintf("the batch at index %d with a wrong post-root", start)})
	}
	type res struct {
		status int
		body   []byte
		err    error
	}
	for round := 0; round < 4; round++ {
		out := make([]res, len(jobs))
		done := make(chan int, len(jobs))
		for i := range jobs {
			go func(i int) {
				k := (i*7 + round*5) % len(jobs) // a different arrival order every round
				c := &http.Client{Timeout: 120 * time.Second}
				resp, err := c.Post(url, "application/json", strings.NewReader(jobs[k].doc))
				if err != nil {
					out[k] = res{err: err}
				} else {
					b, _ := io.ReadAll(resp.Body)
					resp.Body.Close()
					out[k] = res{status: resp.StatusCode, body: b}
				}
				done <- k
			}(i)
		}
		for range jobs {
			<-done
		}
		for k, j := range jobs {
			in := map[string]interface{}{"request": j.what, "overlapping_requests": len(jobs), "round": round, "body": j.doc, "status": out[k].status, "answer": string(out[k].body)}
			if out[k].err != nil {
				verifSrvFail("proveHandler.ServeHTTP", "no answer to one of several overlapping requests: "+out[k].err.Error(), in)
				return
			}
			if j.valid {
				var proof prover.Proof
				if out[k].status != 200 || json.Unmarshal(out[k].body, &proof) != nil {
					verifSrvFail("proveHandler.ServeHTTP", "a valid batch sent together with other requests is not answered with a proof", in)
					return
				}
				if err := ps.VerifyInsertion(*j.hash, &proof); err != nil {
					verifSrvFail("proveHandler.ServeHTTP", "the proof answered to one of several overlapping requests does not verify against that request's input hash: "+err.Error(), in)
					return
				}
			} else if out[k].status != 400 {
				verifSrvFail("proveHandler.ServeHTTP", "an invalid batch sent together with other requests is not answered with 400", in)
				return
			}
		}
	}
	fmt.Println("REPLAY-OK overlapping requests are each answered for their own parameters")
}

// ---------------------------------------------------------------------------------------------------------------
// C14: stop and wait — early stop, stop with a request in flight, restart on the same addresses
// ---------------------------------------------------------------------------------------------------------------

func verifBindable(addr string, wait time.Duration) error {
	deadline := time.Now().Add(wait)
	for {
		l, err := net.Listen("tcp", addr)
		if err == nil {
			l.Close()
			return nil
		}
		if time.Now().After(deadline) {
			return err
		}
		time.Sleep(20 * time.Millisecond)
	}
}

func verifStopWithin(job RunningJob, d time.Duration) bool {
	done := make(chan struct{})
	go func() {
		job.RequestStop()
		job.AwaitStop()
		close(done)
	}()
	select {
	case <-done:
		return true
	case <-time.After(d):
		return false
	}
}

func TestVerifReplayC14(t *testing.T) {
	ps, err := prover.SetupInsertion(2, 1)
	if err != nil {
		fmt.Printf("REPLAY-SKIP setup failed: %v\n", err)
		return
	}
	cfg := Config{ProverAddress: verifFreeAddr(), MetricsAddress: verifFreeAddr(), Mode: InsertionMode}
	in := func(cycle int, what string) map[string]interface{} {
		return map[string]interface{}{"cycle": cycle, "stop_timing": what, "prover_address": cfg.ProverAddress, "metrics_address": cfg.MetricsAddress}
	}
	// (a) a stop requested right after Run returns, before or while the listeners come up; the same two addresses every
	// cycle, and no grace period: once waiting-for-stop has returned both must be free (a listener opened while the stop
	// was being processed must be closed by then — the defect fixed in /repo, see known-findings.json)
	for cycle := 0; cycle < 3000; cycle++ {
		job := Run(&cfg, ps)
		if !verifStopWithin(job, 30*time.Second) {
			verifSrvFail("RunningJob.RequestStop/AwaitStop", "a stop requested right after start-up is never completed (waiting for it hangs)", in(cycle, "immediately after Run"))
			return
		}
		for _, a := range []string{cfg.ProverAddress, cfg.MetricsAddress} {
			if err := verifBindable(a, 0); err != nil {
				verifSrvFail("server.SpawnJob", "an address is still bound after waiting-for-stop returned: "+err.Error(), in(cycle, "immediately after Run"))
				return
			}
		}
	}
	// (b) a stop while a prove request is in flight (confirmed through the in-flight gauge), three cycles on the same addresses
	doc, hash := verifDoc(2, 1, 9, 0)
	gauge := regexp.MustCompile(`(?m)^http_requests_in_flight\{[^}]*endpoint_pattern="/prove"[^}]*\} 1$`)
	confirmed := 0
	for cycle := 0; cycle < 6 && confirmed < 3; cycle++ {
		job := Run(&cfg, ps)
		up := false
		for i := 0; i < 200 && !up; i++ {
			c1, e1 := net.Dial("tcp", cfg.ProverAddress)
			c2, e2 := net.Dial("tcp", cfg.MetricsAddress)
			if e1 == nil {
				c1.Close()
			}
			if e2 == nil {
				c2.Close()
			}
			up = e1 == nil && e2 == nil
			if !up {
				time.Sleep(25 * time.Millisecond)
			}
		}
		if !up {
			job.RequestStop()
			job.AwaitStop()
			verifSrvFail("server.Run", "the listeners do not come up on addresses that were released by the previous stop", in(cycle, "-"))
			return
		}
		type ans struct {
			status int
			body   []byte
			err    error
		}
		got := make(chan ans, 1)
		go func() {
			c := &http.Client{Timeout: 120 * time.Second}
			resp, err := c.Post("http://"+cfg.ProverAddress+"/prove", "application/json", strings.NewReader(doc))
			if err != nil {
				got <- ans{err: err}
				return
			}
			b, err := io.ReadAll(resp.Body)
			resp.Body.Close()
			got <- ans{resp.StatusCode, b, err}
		}()
		// wait until the gauge shows the request in flight (or the answer is already there: no verdict from this cycle)
		inflight := false
		var early *ans
		mc := &http.Client{Timeout: 2 * time.Second}
		for i := 0; i < 2000 && !inflight && early == nil; i++ {
			select {
			case a := <-got:
				early = &a
			default:
				if resp, err := mc.Get("http://" + cfg.MetricsAddress + "/metrics"); err == nil {
					b, _ := io.ReadAll(resp.Body)
					resp.Body.Close()
					inflight = gauge.Match(b)
				}
			}
		}
		if !verifStopWithin(job, 120*time.Second) {
			verifSrvFail("RunningJob.RequestStop/AwaitStop", "stop and wait do not complete while a request is in flight", in(cycle, "request in flight"))
			return
		}
		if inflight {
			confirmed++
			var a ans
			select {
			case a = <-got:
			case <-time.After(5 * time.Second):
				verifSrvFail("server.Run", "waiting-for-stop returned but the request that was in flight has no answer", in(cycle, "request in flight"))
				return
			}
			var proof prover.Proof
			if a.err != nil || a.status != 200 || json.Unmarshal(a.body, &proof) != nil || ps.VerifyInsertion(*hash, &proof) != nil {
				m := in(cycle, "request in flight (in-flight gauge was 1 when the stop was requested)")
				m["status"], m["answer"] = a.status, string(a.body)
				if a.err != nil {
					m["client_error"] = a.err.Error()
				}
				verifSrvFail("server.Run", "a request that was in flight when the stop was requested did not receive its full response", m)
				return
			}
		}
		for _, a := range []string{cfg.ProverAddress, cfg.MetricsAddress} {
			if err := verifBindable(a, 0); err != nil {
				verifSrvFail("server.Run", "an address is still bound after waiting-for-stop returned: "+err.Error(), in(cycle, "request in flight"))
				return
			}
		}
	}
	if confirmed == 0 {
		fmt.Println("REPLAY-SKIP no cycle had a request in flight when the stop was requested")
		return
	}
	fmt.Printf("REPLAY-OK early stops complete, %d requests in flight at the stop got their full response, addresses are released\n", confirmed)
}
