package prover

// Replay harness for C16 (injected with go test -overlay; never written into /repo).
// Runs the real parameter encoders and decoders on a sweep of parameter sets (value magnitudes 0, 1, r-1, r, 2^256-1,
// index extremes, empty and ragged arrays) and on malformed numeric strings, and reports the first input whose round
// trip is not the identity or whose malformed number is accepted.

import (
	"encoding/json"
	"fmt"
	"math/big"
	"strings"
	"testing"
)

func verifC16Values() []*big.Int {
	r, _ := new(big.Int).SetString("21888242871839275222246405745257275088548364400416034343698204186575808495617", 10)
	max := new(big.Int).Sub(new(big.Int).Lsh(big.NewInt(1), 256), big.NewInt(1))
	return []*big.Int{
		big.NewInt(0), big.NewInt(1), big.NewInt(255), big.NewInt(256),
		new(big.Int).Sub(r, big.NewInt(1)), r, new(big.Int).Add(r, big.NewInt(5)), max,
		new(big.Int).Lsh(big.NewInt(1), 64), new(big.Int).Lsh(big.NewInt(1), 192), new(big.Int).Lsh(big.NewInt(1), 248),
	}
}

func verifC16Fill(n int, vals []*big.Int, off int) []big.Int {
	out := make([]big.Int, n)
	for i := range out {
		out[i].Set(vals[(i+off)%len(vals)])
	}
	return out
}

func verifC16Same(a, b []big.Int) bool {
	if len(a) != len(b) {
		return false
	}
	for i := range a {
		if a[i].Cmp(&b[i]) != 0 {
			return false
		}
	}
	return true
}

func verifC16SameMatrix(a, b [][]big.Int) bool {
	if len(a) != len(b) {
		return false
	}
	for i := range a {
		if !verifC16Same(a[i], b[i]) {
			return false
		}
	}
	return true
}

func verifC16Shapes() [][]int {
	// row lengths of merkleProofs (the batch is len(shape)): rectangular, empty, and ragged shapes
	return [][]int{{}, {0}, {1}, {3}, {0, 0}, {2, 2}, {2, 4}, {4, 2}, {0, 3}, {3, 0}, {1, 2, 3}, {3, 1, 2}, {2, 2, 2, 5}}
}

func verifC16Fail(function, what string, doc []byte, shape []int) {
	b, _ := json.Marshal(map[string]interface{}{"function": function, "error": what, "json": string(doc), "merkleProofs_row_lengths": shape})
	fmt.Printf("REPLAY-FAIL %s\n", b)
}

// verifC16Call runs f and turns a panic into an error text.
func verifC16Call(f func() error) (err error) {
	defer func() {
		if r := recover(); r != nil {
			err = fmt.Errorf("panic: %v", r)
		}
	}()
	return f()
}

func TestVerifReplayC16(t *testing.T) {
	vals := verifC16Values()
	for si, shape := range verifC16Shapes() {
		for off := 0; off < len(vals); off++ {
			for _, idx := range []uint32{0, 1, 4294967295} {
				// insertion
				var p InsertionParameters
				p.InputHash.Set(vals[off])
				p.StartIndex = idx
				p.PreRoot.Set(vals[(off+1)%len(vals)])
				p.PostRoot.Set(vals[(off+2)%len(vals)])
				p.IdComms = verifC16Fill(len(shape)+si%2, vals, off+3)
				p.MerkleProofs = make([][]big.Int, len(shape))
				for i, n := range shape {
					p.MerkleProofs[i] = verifC16Fill(n, vals, off+i)
				}
				var doc []byte
				err := verifC16Call(func() (e error) { doc, e = json.Marshal(&p); return })
				if err != nil {
					verifC16Fail("InsertionParameters.MarshalJSON", err.Error(), nil, shape)
					return
				}
				var q InsertionParameters
				err = verifC16Call(func() error { return json.Unmarshal(doc, &q) })
				if err != nil {
					verifC16Fail("InsertionParameters.UnmarshalJSON", "own encoding rejected: "+err.Error(), doc, shape)
					return
				}
				if q.InputHash.Cmp(&p.InputHash) != 0 || q.StartIndex != p.StartIndex || q.PreRoot.Cmp(&p.PreRoot) != 0 || q.PostRoot.Cmp(&p.PostRoot) != 0 ||
					!verifC16Same(q.IdComms, p.IdComms) || !verifC16SameMatrix(q.MerkleProofs, p.MerkleProofs) {
					verifC16Fail("InsertionParameters round trip", "decoded parameters differ from the original", doc, shape)
					return
				}
				// deletion
				var d DeletionParameters
				d.InputHash.Set(vals[off])
				d.DeletionIndices = make([]uint32, len(shape))
				for i := range d.DeletionIndices {
					d.DeletionIndices[i] = idx - uint32(i)
				}
				d.PreRoot.Set(vals[(off+1)%len(vals)])
				d.PostRoot.Set(vals[(off+2)%len(vals)])
				d.IdComms = verifC16Fill(len(shape), vals, off+3)
				d.MerkleProofs = make([][]big.Int, len(shape))
				for i, n := range shape {
					d.MerkleProofs[i] = verifC16Fill(n, vals, off+i)
				}
				err = verifC16Call(func() (e error) { doc, e = json.Marshal(&d); return })
				if err != nil {
					verifC16Fail("DeletionParameters.MarshalJSON", err.Error(), nil, shape)
					return
				}
				var e DeletionParameters
				err = verifC16Call(func() error { return json.Unmarshal(doc, &e) })
				if err != nil {
					verifC16Fail("DeletionParameters.UnmarshalJSON", "own encoding rejected: "+err.Error(), doc, shape)
					return
				}
				sameIdx := len(e.DeletionIndices) == len(d.DeletionIndices)
				for i := 0; sameIdx && i < len(d.DeletionIndices); i++ {
					sameIdx = e.DeletionIndices[i] == d.DeletionIndices[i]
				}
				if e.InputHash.Cmp(&d.InputHash) != 0 || !sameIdx || e.PreRoot.Cmp(&d.PreRoot) != 0 || e.PostRoot.Cmp(&d.PostRoot) != 0 ||
					!verifC16Same(e.IdComms, d.IdComms) || !verifC16SameMatrix(e.MerkleProofs, d.MerkleProofs) {
					verifC16Fail("DeletionParameters round trip", "decoded parameters differ from the original", doc, shape)
					return
				}
			}
		}
	}
	// malformed numbers in every numeric position, and indices outside 32 bits, must be rejected
	bad := []string{"", "0x", "zz", " 1", "1 ", "1.5", "1e3", "0xg1", "0x 1", "--1", "null"}
	insT := `{"inputHash":%s,"startIndex":%s,"preRoot":%s,"postRoot":%s,"identityCommitments":[%s,%s],"merkleProofs":[[%s,%s],[%s,%s]]}`
	delT := `{"inputHash":%s,"deletionIndices":[%s,1],"preRoot":%s,"postRoot":%s,"identityCommitments":[%s,%s],"merkleProofs":[[%s,%s],[%s,%s]]}`
	for ti, tmpl := range []string{insT, delT} {
		nslots := strings.Count(tmpl, "%s")
		for slot := 0; slot < nslots; slot++ {
			cands := bad
			if slot == 1 {
				cands = []string{"4294967296", "-1", "1.5", "\"1\"", "18446744073709551616"}
			}
			for _, b := range cands {
				args := make([]interface{}, nslots)
				for i := range args {
					if i == 1 {
						args[i] = "7"
					} else {
						args[i] = `"0x1"`
					}
				}
				if slot == 1 {
					args[slot] = b
				} else {
					q, _ := json.Marshal(b)
					args[slot] = string(q)
				}
				doc := []byte(fmt.Sprintf(tmpl, args...))
				var err error
				fn := "InsertionParameters.UnmarshalJSON"
				if ti == 0 {
					var p InsertionParameters
					err = verifC16Call(func() error { return json.Unmarshal(doc, &p) })
				} else {
					fn = "DeletionParameters.UnmarshalJSON"
					var p DeletionParameters
					err = verifC16Call(func() error { return json.Unmarshal(doc, &p) })
				}
				if err == nil {
					verifC16Fail(fn, fmt.Sprintf("malformed number %q in numeric position %d accepted", b, slot), doc, nil)
					return
				}
				if strings.HasPrefix(err.Error(), "panic:") {
					verifC16Fail(fn, err.Error(), doc, nil)
					return
				}
			}
		}
	}
	// the well-formed template itself must decode (otherwise the rejections above mean nothing)
	for ti, tmpl := range []string{insT, delT} {
		nslots := strings.Count(tmpl, "%s")
		args := make([]interface{}, nslots)
		for i := range args {
			if i == 1 {
				args[i] = "7"
			} else {
				args[i] = `"0x1"`
			}
		}
		doc := []byte(fmt.Sprintf(tmpl, args...))
		var err error
		if ti == 0 {
			var p InsertionParameters
			err = json.Unmarshal(doc, &p)
		} else {
			var p DeletionParameters
			err = json.Unmarshal(doc, &p)
		}
		if err != nil {
			verifC16Fail("UnmarshalJSON", "well-formed document rejected: "+err.Error(), doc, nil)
			return
		}
	}
	fmt.Println("REPLAY-OK parameter sets round-trip and malformed numbers are rejected")
}
