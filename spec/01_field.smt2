; field.smt2 — arithmetic of the scalar field Z_p (p is the circuit's modulus; BN254 r unless a gadget is verified for every p)
(define-fun field.add ((a Int) (b Int) (p Int)) Int (mod (+ a b) p))
(define-fun field.sub ((a Int) (b Int) (p Int)) Int (mod (- a b) p))
(define-fun field.mul ((a Int) (b Int) (p Int)) Int (mod (* a b) p))
(define-fun field.neg ((a Int) (p Int)) Int (mod (- a) p))

(lemma sub1_bool
  (forall ((a Int))
    (! (=> (bits.isbool a) (= (field.sub 1 a FIELD_P) (- 1 a))) :pattern ((field.sub 1 a FIELD_P))))
  :reveal (field.sub))
