; lemmas / axioms about the generated Keccak specification

; a state rebuilt from the 25 lanes of a round's output is that output (the round writes exactly lanes 0..24 over zero)
(lemma round_norm
  (forall ((s (Array Int (_ BitVec 64))) (rc (_ BitVec 64)))
    (! (= (keccak.st25 (select (keccak.round s rc) 0) (select (keccak.round s rc) 1) (select (keccak.round s rc) 2) (select (keccak.round s rc) 3) (select (keccak.round s rc) 4) (select (keccak.round s rc) 5) (select (keccak.round s rc) 6) (select (keccak.round s rc) 7) (select (keccak.round s rc) 8) (select (keccak.round s rc) 9) (select (keccak.round s rc) 10) (select (keccak.round s rc) 11) (select (keccak.round s rc) 12) (select (keccak.round s rc) 13) (select (keccak.round s rc) 14) (select (keccak.round s rc) 15) (select (keccak.round s rc) 16) (select (keccak.round s rc) 17) (select (keccak.round s rc) 18) (select (keccak.round s rc) 19) (select (keccak.round s rc) 20) (select (keccak.round s rc) 21) (select (keccak.round s rc) 22) (select (keccak.round s rc) 23) (select (keccak.round s rc) 24)) (keccak.round s rc))
       :pattern ((keccak.round s rc))))
  :reveal (keccak.round keccak.st25))

; one step of the sponge
(lemma absorb_end (forall ((p (Array Int Int)) (k Int)) (=> (<= k 0) (= (keccak.absorb p k) keccak.zero)))
  :reveal (keccak.absorb))
(lemma absorb_split (forall ((p (Array Int Int)) (k Int))
    (=> (> k 0) (= (keccak.absorb p k) (keccak.f1600 (keccak.xorBlock (keccak.absorb p (- k 1)) p (- k 1))))))
  :reveal (keccak.absorb))

; a lane whose 64 bits are 0 is the zero vector
(lemma lane_zero
  (forall ((a (Array Int Int)) (off Int))
    (! (=> (forall ((z Int)) (=> (and (<= off z) (< z (+ off 64))) (= (select a z) 0))) (= (keccak.lane a off) #x0000000000000000))
       :pattern ((keccak.lane a off))))
  :reveal (keccak.lane))
; lanes of arrays that agree on the 64 positions are equal
(lemma lane_ext
  (forall ((a (Array Int Int)) (i Int) (c (Array Int Int)) (j Int))
    (! (=> (forall ((z Int)) (=> (and (<= 0 z) (< z 64)) (= (select a (+ i z)) (select c (+ j z))))) (= (keccak.lane a i) (keccak.lane c j)))
       :pattern ((keccak.lane a i) (keccak.lane c j))))
  :reveal (keccak.lane))
; booleanity of a 64-bit window, both views
(lemma lanebool_range
  (forall ((a (Array Int Int)) (off Int))
    (! (= (keccak.lanebool a off) (bits.allboolFrom a off (+ off 64)))
       :pattern ((keccak.lanebool a off))))
  :reveal (keccak.lanebool) :lemmas (allboolFrom_elem allboolFrom_intro))

; same, for one offset in both arrays (far fewer instantiations than lane_ext)
(lemma lane_ext_same
  (forall ((a (Array Int Int)) (c (Array Int Int)) (i Int))
    (! (=> (forall ((z Int)) (=> (and (<= i z) (< z (+ i 64))) (= (select a z) (select c z)))) (= (keccak.lane a i) (keccak.lane c i)))
       :pattern ((keccak.lane a i) (keccak.lane c i))))
  :reveal (keccak.lane))
; xoring a block in depends only on that block's 1088 bits
(lemma xorBlock_ext
  (forall ((s (Array Int (_ BitVec 64))) (a (Array Int Int)) (c (Array Int Int)) (b Int))
    (! (=> (forall ((t Int)) (=> (and (<= (* 1088 b) t) (< t (+ (* 1088 b) 1088))) (= (select a t) (select c t))))
           (= (keccak.xorBlock s a b) (keccak.xorBlock s c b)))
       :pattern ((keccak.xorBlock s a b) (keccak.xorBlock s c b))))
  :reveal (keccak.xorBlock) :lemmas (lane_ext_same))
; the sponge state after k blocks depends only on the first 1088*k padded bits
(lemma absorb_ext
  (forall ((a (Array Int Int)) (c (Array Int Int)) (k Int))
    (! (=> (forall ((t Int)) (=> (and (<= 0 t) (< t (* 1088 k))) (= (select a t) (select c t))))
           (= (keccak.absorb a k) (keccak.absorb c k)))
       :pattern ((keccak.absorb a k) (keccak.absorb c k))))
  :induct k :inst (a c (- k 1))
  :unfold ((keccak.absorb a k) (keccak.absorb c k))
  :lemmas (xorBlock_ext))

; the state of 25 zero lanes is the zero state
(lemma st25_zero (= (keccak.st25 #x0000000000000000 #x0000000000000000 #x0000000000000000 #x0000000000000000 #x0000000000000000 #x0000000000000000 #x0000000000000000 #x0000000000000000 #x0000000000000000 #x0000000000000000 #x0000000000000000 #x0000000000000000 #x0000000000000000 #x0000000000000000 #x0000000000000000 #x0000000000000000 #x0000000000000000 #x0000000000000000 #x0000000000000000 #x0000000000000000 #x0000000000000000 #x0000000000000000 #x0000000000000000 #x0000000000000000 #x0000000000000000) keccak.zero) :reveal (keccak.st25 keccak.zero))

; a rate block (1088 bits) is boolean iff its 17 lanes are
(lemma block_bool
  (forall ((a (Array Int Int)) (off Int))
    (! (= (bits.allboolFrom a off (+ off 1088)) (and (keccak.lanebool a off) (keccak.lanebool a (+ off 64)) (keccak.lanebool a (+ off 128)) (keccak.lanebool a (+ off 192)) (keccak.lanebool a (+ off 256)) (keccak.lanebool a (+ off 320)) (keccak.lanebool a (+ off 384)) (keccak.lanebool a (+ off 448)) (keccak.lanebool a (+ off 512)) (keccak.lanebool a (+ off 576)) (keccak.lanebool a (+ off 640)) (keccak.lanebool a (+ off 704)) (keccak.lanebool a (+ off 768)) (keccak.lanebool a (+ off 832)) (keccak.lanebool a (+ off 896)) (keccak.lanebool a (+ off 960)) (keccak.lanebool a (+ off 1024))))
       :pattern ((bits.allboolFrom a off (+ off 1088)))))
  :lemmas (lanebool_range allboolFrom_append))

; the digest depends only on the first n message bits
(lemma keccak_ext
  (forall ((a (Array Int Int)) (c (Array Int Int)) (n Int) (d Int))
    (! (=> (forall ((t Int)) (=> (and (<= 0 t) (< t n)) (= (select a t) (select c t))))
           (= (keccak.digest a n d) (keccak.digest c n d)))
       :pattern ((keccak.digest a n d) (keccak.digest c n d))))
  :reveal (keccak.digest keccak.final) :lemmas (keccak_pad_sel absorb_ext))
; digest bits are bits
(lemma squeeze_bool
  (forall ((s (Array Int (_ BitVec 64))) (t Int))
    (! (bits.isbool (select (keccak.squeeze256 s) t)) :pattern ((select (keccak.squeeze256 s) t))))
  :reveal (keccak.squeeze256))
(lemma digest_bool
  (forall ((a (Array Int Int)) (n Int) (d Int))
    (! (bits.allboolFrom (keccak.digest a n d) 0 256) :pattern ((keccak.digest a n d))))
  :reveal (keccak.digest) :lemmas (squeeze_bool allboolFrom_intro))
