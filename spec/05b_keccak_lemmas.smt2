; lemmas / axioms about the generated Keccak specification

; the digest depends only on the first n message bits
(axiom keccak_ext
  (forall ((a (Array Int Int)) (c (Array Int Int)) (n Int) (d Int))
    (! (=> (forall ((t Int)) (=> (and (<= 0 t) (< t n)) (= (select a t) (select c t))))
           (= (keccak.digest a n d) (keccak.digest c n d)))
       :pattern ((keccak.digest a n d) (keccak.digest c n d)))))
; digest bits are bits
(axiom digest_bool
  (forall ((a (Array Int Int)) (n Int) (d Int))
    (! (bits.allboolFrom (keccak.digest a n d) 0 256) :pattern ((keccak.digest a n d)))))

; a state rebuilt from the 25 lanes of a round's output is that output (the round writes exactly lanes 0..24 over zero)
(lemma round_norm
  (forall ((s (Array Int (_ BitVec 64))) (rc (_ BitVec 64)))
    (! (= (keccak.st25 (select (keccak.round s rc) 0) (select (keccak.round s rc) 1) (select (keccak.round s rc) 2) (select (keccak.round s rc) 3) (select (keccak.round s rc) 4) (select (keccak.round s rc) 5) (select (keccak.round s rc) 6) (select (keccak.round s rc) 7) (select (keccak.round s rc) 8) (select (keccak.round s rc) 9) (select (keccak.round s rc) 10) (select (keccak.round s rc) 11) (select (keccak.round s rc) 12) (select (keccak.round s rc) 13) (select (keccak.round s rc) 14) (select (keccak.round s rc) 15) (select (keccak.round s rc) 16) (select (keccak.round s rc) 17) (select (keccak.round s rc) 18) (select (keccak.round s rc) 19) (select (keccak.round s rc) 20) (select (keccak.round s rc) 21) (select (keccak.round s rc) 22) (select (keccak.round s rc) 23) (select (keccak.round s rc) 24)) (keccak.round s rc))
       :pattern ((keccak.round s rc))))
  :reveal (keccak.round keccak.st25))
