; bytes.smt2 — big-endian byte strings of naturals (C08, C10, C16)

(define-fun-rec bytes.pow256 ((n Int)) Int (ite (<= n 0) 1 (* 256 (bytes.pow256 (- n 1)))))

; byte k (0 = most significant) of the n-byte big-endian form of v
(define-fun-rec bytes.beByte ((v Int) (n Int) (k Int)) Int
  (ite (>= k (- n 1)) (mod v 256) (bytes.beByte (div v 256) (- n 1) k)))

; the natural denoted by the big-endian byte string b[j..n)
(define-fun-rec bytes.beIntFrom ((b (Array Int Int)) (j Int) (n Int)) Int
  (ite (>= j n) 0 (+ (* (select b (- n 1)) 1) (* 256 (bytes.beIntFrom b j (- n 1))))))
(define-fun bytes.beInt ((b (Array Int Int)) (n Int)) Int (bytes.beIntFrom b 0 n))

; length of the minimal big-endian form (what math/big.Int.Bytes returns): 0 for 0
(declare-fun bytes.minLen (Int) Int)
(axiom minLen_def
  (forall ((v Int))
    (! (and (>= (bytes.minLen v) 0)
            (=> (>= v 0) (< v (bytes.pow256 (bytes.minLen v))))
            (=> (> (bytes.minLen v) 0) (>= v (bytes.pow256 (- (bytes.minLen v) 1)))))
       :pattern ((bytes.minLen v)))))

(lemma pow256_pos (forall ((n Int)) (>= (bytes.pow256 n) 1)) :induct n :reveal (bytes.pow256))
(lemma pow256_mono (forall ((a Int) (b Int)) (=> (and (<= 0 a) (<= a b)) (<= (bytes.pow256 a) (bytes.pow256 b))))
  :induct (- b a) :reveal (bytes.pow256) :lemmas (pow256_pos))
(lemma pow256_32 (= (bytes.pow256 32) 115792089237316195423570985008687907853269984665640564039457584007913129639936)
  :reveal (bytes.pow256))
(lemma pow256_4 (= (bytes.pow256 4) 4294967296) :reveal (bytes.pow256))

(lemma beByte_range (forall ((v Int) (n Int) (k Int)) (and (<= 0 (bytes.beByte v n k)) (< (bytes.beByte v n k) 256)))
  :induct (- n k) :reveal (bytes.beByte))

; leading bytes of a small value are zero; the trailing m bytes are its m-byte form
(lemma beByte_lead0
  (forall ((v Int) (n Int) (m Int) (k Int))
    (=> (and (<= 0 v) (< v (bytes.pow256 m)) (<= 0 m) (<= m n) (<= 0 k) (< k (- n m))) (= (bytes.beByte v n k) 0)))
  :induct n :reveal (bytes.pow256)
  :unfold ((bytes.beByte v n k))
  :inst ((div v 256) (- n 1) (ite (>= m 1) (- m 1) 0) k))
(lemma beByte_tail
  (forall ((v Int) (n Int) (m Int) (k Int))
    (=> (and (<= 0 m) (<= m n) (<= (- n m) k) (< k n)) (= (bytes.beByte v n k) (bytes.beByte v m (- k (- n m))))))
  :induct m
  :unfold ((bytes.beByte v n k) (bytes.beByte v m (- k (- n m))))
  :inst ((div v 256) (- n 1) (- m 1) k))

; ---------------- Keccak-256 on byte strings and the canonical packings at byte level (C08) ----------------
(declare-fun keccakb.hash256 ((Array Int Int) Int) (Array Int Int))
(axiom keccakb_ext
  (forall ((a (Array Int Int)) (c (Array Int Int)) (n Int))
    (! (=> (forall ((t Int)) (=> (and (<= 0 t) (< t n)) (= (select a t) (select c t))))
           (= (keccakb.hash256 a n) (keccakb.hash256 c n)))
       :pattern ((keccakb.hash256 a n) (keccakb.hash256 c n)))))

; insertion: uint32 startIndex || uint256 preRoot || uint256 postRoot || uint256 idComms...
(define-fun pack.insByte ((start Int) (pre Int) (post Int) (idc (Array Int Int)) (j Int)) Int
  (ite (< j 4) (bytes.beByte start 4 j)
  (ite (< j 36) (bytes.beByte pre 32 (- j 4))
  (ite (< j 68) (bytes.beByte post 32 (- j 36))
       (bytes.beByte (select idc (div (- j 68) 32)) 32 (mod (- j 68) 32))))))
(declare-fun pack.insBytes (Int Int Int (Array Int Int)) (Array Int Int))
(axiom insBytes_sel
  (forall ((start Int) (pre Int) (post Int) (idc (Array Int Int)) (j Int))
    (! (= (select (pack.insBytes start pre post idc) j) (pack.insByte start pre post idc j))
       :pattern ((select (pack.insBytes start pre post idc) j)))))

; deletion: uint32 indices[0..b) || uint256 preRoot || uint256 postRoot
(define-fun pack.delByte ((dix (Array Int Int)) (pre Int) (post Int) (b Int) (j Int)) Int
  (ite (< j (* 4 b)) (bytes.beByte (select dix (div j 4)) 4 (mod j 4))
  (ite (< j (+ (* 4 b) 32)) (bytes.beByte pre 32 (- j (* 4 b)))
       (bytes.beByte post 32 (- j (+ (* 4 b) 32))))))
(declare-fun pack.delBytes ((Array Int Int) Int Int Int) (Array Int Int))
(axiom delBytes_sel
  (forall ((dix (Array Int Int)) (pre Int) (post Int) (b Int) (j Int))
    (! (= (select (pack.delBytes dix pre post b) j) (pack.delByte dix pre post b j))
       :pattern ((select (pack.delBytes dix pre post b) j)))))
(always-reveal pack.insByte pack.delByte)

; the same two facts keyed on math/big's minimal length, with single-term patterns
(lemma beByte_min_lead0
  (forall ((v Int) (n Int) (k Int))
    (! (=> (and (<= 0 v) (<= (bytes.minLen v) n) (<= 0 k) (< k (- n (bytes.minLen v)))) (= (bytes.beByte v n k) 0))
       :pattern ((bytes.beByte v n k))))
  :lemmas (minLen_def beByte_lead0))
(lemma beByte_min_tail
  (forall ((v Int) (n Int) (k Int))
    (! (=> (and (<= (bytes.minLen v) n) (<= (- n (bytes.minLen v)) k) (< k n))
           (= (bytes.beByte v n k) (bytes.beByte v (bytes.minLen v) (- k (- n (bytes.minLen v))))))
       :pattern ((bytes.beByte v n k))))
  :lemmas (minLen_def beByte_tail))
; a value below 256^n has a minimal form of at most n bytes
(lemma minLen_le
  (forall ((v Int) (n Int))
    (! (=> (and (<= 0 v) (<= 0 n) (< v (bytes.pow256 n))) (<= (bytes.minLen v) n))
       :pattern ((bytes.minLen v) (bytes.pow256 n))))
  :lemmas (minLen_def pow256_mono))

; big-endian value of a window: one-step unfoldings and shift-invariance
(lemma beIntFrom_end (forall ((b (Array Int Int)) (j Int) (n Int)) (=> (>= j n) (= (bytes.beIntFrom b j n) 0)))
  :reveal (bytes.beIntFrom))
(lemma beIntFrom_split (forall ((b (Array Int Int)) (j Int) (n Int))
    (=> (< j n) (= (bytes.beIntFrom b j n) (+ (select b (- n 1)) (* 256 (bytes.beIntFrom b j (- n 1)))))))
  :reveal (bytes.beIntFrom))
(lemma beIntFrom_shift
  (forall ((a (Array Int Int)) (c (Array Int Int)) (j Int) (i Int) (n Int))
    (! (=> (forall ((k Int)) (=> (and (<= 0 k) (< k n)) (= (select a (+ i k)) (select c (+ j k)))))
           (= (bytes.beIntFrom a i (+ i n)) (bytes.beIntFrom c j (+ j n))))
       :pattern ((bytes.beIntFrom a i (+ i n)) (bytes.beIntFrom c j (+ j n)))))
  :induct n :inst (a c j i (- n 1))
  :unfold ((bytes.beIntFrom a i (+ i n)) (bytes.beIntFrom c j (+ j n))))
; the n-byte big-endian form of the value of an n-byte window is the window (round trip)
(lemma beByte_of_beInt
  (forall ((b (Array Int Int)) (j Int) (n Int) (k Int))
    (=> (and (<= 0 k) (< k n) (forall ((t Int)) (=> (and (<= j t) (< t (+ j n))) (and (<= 0 (select b t)) (< (select b t) 256)))))
        (= (bytes.beByte (bytes.beIntFrom b j (+ j n)) n k) (select b (+ j k)))))
  :induct n
  :unfold ((bytes.beByte (bytes.beIntFrom b j (+ j n)) n k) (bytes.beIntFrom b j (+ j n)))
  :inst (b j (- n 1) k))
(lemma beInt_bound
  (forall ((b (Array Int Int)) (j Int) (n Int))
    (=> (and (<= 0 n) (forall ((t Int)) (=> (and (<= j t) (< t (+ j n))) (and (<= 0 (select b t)) (< (select b t) 256)))))
        (and (<= 0 (bytes.beIntFrom b j (+ j n))) (< (bytes.beIntFrom b j (+ j n)) (bytes.pow256 n)))))
  :induct n :reveal (bytes.beIntFrom bytes.pow256) :inst (b j (- n 1)))
(lemma beIntFrom_shift2
  (forall ((a (Array Int Int)) (c (Array Int Int)) (i Int) (j Int) (e1 Int) (e2 Int))
    (! (=> (and (= (- e1 i) (- e2 j))
                (forall ((t Int)) (=> (and (<= i t) (< t e1)) (= (select a t) (select c (+ t (- j i)))))))
           (= (bytes.beIntFrom a i e1) (bytes.beIntFrom c j e2)))
       :pattern ((bytes.beIntFrom a i e1) (bytes.beIntFrom c j e2))))
  :induct (- e1 i) :inst (a c i j (- e1 1) (- e2 1))
  :unfold ((bytes.beIntFrom a i e1) (bytes.beIntFrom c j e2)))
(lemma beInt_bound2
  (forall ((b (Array Int Int)) (j Int) (e Int))
    (! (=> (and (<= j e) (forall ((t Int)) (=> (and (<= j t) (< t e)) (and (<= 0 (select b t)) (< (select b t) 256)))))
           (and (<= 0 (bytes.beIntFrom b j e)) (< (bytes.beIntFrom b j e) (bytes.pow256 (- e j)))))
       :pattern ((bytes.beIntFrom b j e))))
  :induct (- e j) :reveal (bytes.pow256) :inst (b j (- e 1))
  :unfold ((bytes.beIntFrom b j e)))

; decoding the n-byte big-endian form of v (v < 256^n) gives v back
(lemma beInt_of_beByte
  (forall ((b (Array Int Int)) (j Int) (n Int) (v Int))
    (=> (and (<= 0 n) (<= 0 v) (< v (bytes.pow256 n))
             (forall ((t Int)) (=> (and (<= j t) (< t (+ j n))) (= (select b t) (bytes.beByte v n (- t j))))))
        (= (bytes.beIntFrom b j (+ j n)) v)))
  :induct n :reveal (bytes.pow256)
  :unfold ((bytes.beIntFrom b j (+ j n)) (bytes.beByte v n (- n 1)))
  :lemmas (beByte_shiftdown)
  :inst (b j (- n 1) (div v 256)))
; dropping the last byte: the first n-1 bytes of the n-byte form of v are the (n-1)-byte form of v div 256
(lemma beByte_shiftdown
  (forall ((v Int) (n Int) (k Int))
    (! (=> (and (<= 0 k) (< k (- n 1))) (= (bytes.beByte v n k) (bytes.beByte (div v 256) (- n 1) k)))
       :pattern ((bytes.beByte v n k))))
  :unfold ((bytes.beByte v n k)))
