; pack.smt2 — big-endian byte order over LSB-first bit strings (C03, C06, C08)

; position t of an n-bit string laid out as big-endian bytes, bits LSB-first inside each byte,
; carries the bit with weight 2^beIdx(t,n) of the integer the string denotes (n a multiple of 8)
(define-fun pack.beIdx ((t Int) (n Int)) Int (+ (- (- n 8) (* 8 (div t 8))) (mod t 8)))
(always-reveal pack.beIdx)

; byte-order swap of a bit array: beSwap(b,n)[k] = b[beIdx(k,n)] on [0,n)
(declare-fun pack.beSwap ((Array Int Int) Int) (Array Int Int))
(axiom beSwap_sel
  (forall ((b (Array Int Int)) (n Int) (k Int))
    (! (= (select (pack.beSwap b n) k) (ite (and (<= 0 k) (< k n)) (select b (pack.beIdx k n)) 0))
       :pattern ((select (pack.beSwap b n) k)))))

; the integer denoted by an n-bit big-endian-bytes / LSB-first-bits string
(define-fun pack.beval ((b (Array Int Int)) (n Int)) Int (bits.binvalFrom (pack.beSwap b n) 0 n))
(always-reveal pack.beval)

(lemma beSwap_inv
  (forall ((b (Array Int Int)) (n Int) (k Int))
    (! (=> (and (<= 0 k) (< k n) (= (mod n 8) 0))
           (= (select (pack.beSwap b n) (pack.beIdx k n)) (select b k)))
       :pattern ((select b k) (pack.beSwap b n))))
  :lemmas (beSwap_sel))

(lemma allbool_beSwap_fwd
  (forall ((b (Array Int Int)) (n Int))
    (=> (and (<= 0 n) (= (mod n 8) 0) (bits.allboolFrom b 0 n)) (bits.allboolFrom (pack.beSwap b n) 0 n)))
  :lemmas (beSwap_sel allboolFrom_elem allboolFrom_intro))

(lemma allbool_beSwap_bwd
  (forall ((b (Array Int Int)) (n Int))
    (=> (and (<= 0 n) (= (mod n 8) 0) (bits.allboolFrom (pack.beSwap b n) 0 n)) (bits.allboolFrom b 0 n)))
  :lemmas (beSwap_inv allboolFrom_elem allboolFrom_intro))

(lemma allbool_beSwap
  (forall ((b (Array Int Int)) (n Int))
    (! (=> (and (<= 0 n) (= (mod n 8) 0)) (= (bits.allboolFrom (pack.beSwap b n) 0 n) (bits.allboolFrom b 0 n)))
       :pattern ((bits.allboolFrom (pack.beSwap b n) 0 n))))
  :lemmas (allbool_beSwap_fwd allbool_beSwap_bwd))

; the denoted integer depends only on the n bits
(lemma beval_ext
  (forall ((a (Array Int Int)) (c (Array Int Int)) (n Int))
    (! (=> (and (<= 0 n) (= (mod n 8) 0) (forall ((t Int)) (=> (and (<= 0 t) (< t n)) (= (select a t) (select c t)))))
           (= (pack.beval a n) (pack.beval c n)))
       :pattern ((pack.beval a n) (pack.beval c n))))
  :lemmas (binvalFrom_ext beSwap_sel))

; ---------------- canonical on-chain packings (C03, C08) ----------------
; insertion: uint32 startIndex || uint256 preRoot || uint256 postRoot || uint256 idComms[0] || ...   (big-endian bytes,
; bits LSB-first inside each byte); bit t of the message:
(define-fun pack.insBit ((start Int) (pre Int) (post Int) (idc (Array Int Int)) (t Int)) Int
  (ite (< t 32) (bits.bit start (pack.beIdx t 32))
  (ite (< t 288) (bits.bit pre (pack.beIdx (- t 32) 256))
  (ite (< t 544) (bits.bit post (pack.beIdx (- t 288) 256))
       (bits.bit (select idc (div (- t 544) 256)) (pack.beIdx (mod (- t 544) 256) 256))))))
(declare-fun pack.insBits (Int Int Int (Array Int Int)) (Array Int Int))
(axiom insBits_sel
  (forall ((start Int) (pre Int) (post Int) (idc (Array Int Int)) (t Int))
    (! (= (select (pack.insBits start pre post idc) t) (pack.insBit start pre post idc t))
       :pattern ((select (pack.insBits start pre post idc) t)))))

; deletion: uint32 indices[0..b) || uint256 preRoot || uint256 postRoot
(define-fun pack.delBit ((dix (Array Int Int)) (pre Int) (post Int) (b Int) (t Int)) Int
  (ite (< t (* 32 b)) (bits.bit (select dix (div t 32)) (pack.beIdx (mod t 32) 32))
  (ite (< t (+ (* 32 b) 256)) (bits.bit pre (pack.beIdx (- t (* 32 b)) 256))
       (bits.bit post (pack.beIdx (- t (+ (* 32 b) 256)) 256)))))
(declare-fun pack.delBits ((Array Int Int) Int Int Int) (Array Int Int))
(axiom delBits_sel
  (forall ((dix (Array Int Int)) (pre Int) (post Int) (b Int) (t Int))
    (! (= (select (pack.delBits dix pre post b) t) (pack.delBit dix pre post b t))
       :pattern ((select (pack.delBits dix pre post b) t)))))
(always-reveal pack.insBit pack.delBit)
