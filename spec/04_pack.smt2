; pack.smt2 — big-endian byte order over LSB-first bit strings (C03, C06, C08)

; position t of an n-bit string laid out as big-endian bytes, bits LSB-first inside each byte,
; carries the bit with weight 2^beIdx(t,n) of the integer the string denotes (n a multiple of 8)
(define-fun pack.beIdx ((t Int) (n Int)) Int (+ (- (- n 8) (* 8 (div t 8))) (mod t 8)))
(always-reveal pack.beIdx)

; byte-order swap of a bit array: beSwap(b,n)[k] = b[beIdx(k,n)] on [0,n)
(declare-fun pack.beSwap ((Array Int Int) Int) (Array Int Int))
(axiom beSwap_sel
  (forall ((b (Array Int Int)) (n Int) (k Int))
    (! (= (select (pack.beSwap b n) k) (ite (and (<= 0 k) (< k n)) (select b (pack.beIdx k n)) 0))
       :pattern ((select (pack.beSwap b n) k)))))

; the integer denoted by an n-bit big-endian-bytes / LSB-first-bits string
(define-fun pack.beval ((b (Array Int Int)) (n Int)) Int (bits.binvalFrom (pack.beSwap b n) 0 n))
(always-reveal pack.beval)

(lemma beSwap_inv
  (forall ((b (Array Int Int)) (n Int) (k Int))
    (! (=> (and (<= 0 k) (< k n) (= (mod n 8) 0))
           (= (select (pack.beSwap b n) (pack.beIdx k n)) (select b k)))
       :pattern ((select b k) (pack.beSwap b n))))
  :lemmas (beSwap_sel))

(lemma allbool_beSwap_fwd
  (forall ((b (Array Int Int)) (n Int))
    (=> (and (<= 0 n) (= (mod n 8) 0) (bits.allboolFrom b 0 n)) (bits.allboolFrom (pack.beSwap b n) 0 n)))
  :lemmas (beSwap_sel allboolFrom_elem allboolFrom_intro))

(lemma allbool_beSwap_bwd
  (forall ((b (Array Int Int)) (n Int))
    (=> (and (<= 0 n) (= (mod n 8) 0) (bits.allboolFrom (pack.beSwap b n) 0 n)) (bits.allboolFrom b 0 n)))
  :lemmas (beSwap_inv allboolFrom_elem allboolFrom_intro))

(lemma allbool_beSwap
  (forall ((b (Array Int Int)) (n Int))
    (! (=> (and (<= 0 n) (= (mod n 8) 0)) (= (bits.allboolFrom (pack.beSwap b n) 0 n) (bits.allboolFrom b 0 n)))
       :pattern ((bits.allboolFrom (pack.beSwap b n) 0 n))))
  :lemmas (allbool_beSwap_fwd allbool_beSwap_bwd))
