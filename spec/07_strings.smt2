; strings.smt2 — abstract view of number <-> string conversions and JSON documents (C10, C16)
; Strings are an uninterpreted sort; only the facts below are used.

(declare-fun str.concat (Str Str) Str)
; lowercase hexadecimal digits of a natural, no leading zeros ("0" for 0): math/big.Int.Text(16)
(declare-fun str.hex16 (Int) Str)
; math/big.Int.SetString(s, 0): does s denote a number, and which
(declare-fun str.isNum (Str) Bool)
(declare-fun str.num (Str) Int)

; ASSUMED about math/big: "0x" + Text(16) of a natural parses back to it with base 0
(axiom hex_roundtrip
  (forall ((v Int))
    (! (=> (>= v 0) (and (str.isNum (str.concat "0x" (str.hex16 v))) (= (str.num (str.concat "0x" (str.hex16 v))) v)))
       :pattern ((str.hex16 v)))))

; JSON documents of a proof: eight coordinate strings in document order ar[0], ar[1], bs[0][0], bs[0][1], bs[1][0], bs[1][1], krs[0], krs[1]
(declare-fun json.encProof (Str Str Str Str Str Str Str Str) (Array Int Int))
(declare-fun json.coord ((Array Int Int) Int) Str)
; ASSUMED about encoding/json: decoding what was encoded yields the same strings
(axiom json_proof_roundtrip
  (forall ((s0 Str) (s1 Str) (s2 Str) (s3 Str) (s4 Str) (s5 Str) (s6 Str) (s7 Str))
    (! (let ((d (json.encProof s0 s1 s2 s3 s4 s5 s6 s7)))
         (and (= (json.coord d 0) s0) (= (json.coord d 1) s1) (= (json.coord d 2) s2) (= (json.coord d 3) s3)
              (= (json.coord d 4) s4) (= (json.coord d 5) s5) (= (json.coord d 6) s6) (= (json.coord d 7) s7)))
       :pattern ((json.encProof s0 s1 s2 s3 s4 s5 s6 s7)))))

; ---- parameter documents (C16): accessor view of encoding/json on the mirror structs ----
(declare-fun json.pStr ((Array Int Int) Str) Str)                 ; string-valued field by JSON key
(declare-fun json.pNum ((Array Int Int) Str) Int)                 ; number-valued field by JSON key
(declare-fun json.pLen ((Array Int Int) Str) Int)                 ; length of an array-valued field
(declare-fun json.pStrAt ((Array Int Int) Str Int) Str)           ; element of a string array
(declare-fun json.pNumAt ((Array Int Int) Str Int) Int)           ; element of a number array
(declare-fun json.pRowLen ((Array Int Int) Str Int) Int)          ; length of a row of a 2-d string array
(declare-fun json.pStrAt2 ((Array Int Int) Str Int Int) Str)      ; element of a 2-d string array

; ---- gnark back end: uninterpreted names for "the object this library call returns for these inputs" ----
(declare-fun gnark.compiledIns (Int Int) Int)
(declare-fun gnark.compiledDel (Int Int) Int)
(declare-fun gnark.setupPK (Int) Int)
(declare-fun gnark.setupVK (Int) Int)
(declare-fun gnark.pubWitness (Int) Int)
(declare-fun gnark.fullWitness (Int Int Int Int (Array Int Int) Int (Array Int (Array Int Int)) (Array Int Int) Int) Int)
(declare-fun gnark.fullWitnessDel (Int (Array Int Int) Int Int Int (Array Int Int) Int (Array Int (Array Int Int)) (Array Int Int) Int) Int)
(declare-fun gnark.proveOut (Int Int Int) Int)
(declare-fun gnark.verifyOut (Int Int Int) Int)

; ---- HTTP handler vocabulary (C09) ----
(declare-fun json.proofDocOf (Int) (Array Int Int))
(declare-fun json.errDoc (Str Str) (Array Int Int))
(declare-fun errs.message (Int) Str)

; ---- stream items of the proving-system file (C11, C15) ----
(declare-fun tok.pk (Int Int) Int)
(declare-fun tok.vk (Int Int) Int)
(declare-fun tok.cs (Int) Int)
(define-fun tok.isByte ((t Int)) Bool (and (<= 0 t) (< t 256)))
(always-reveal tok.isByte)
; sections are not bytes and are pairwise distinct kinds; the constructors are injective in the value
(axiom tok_kinds
  (forall ((v Int) (f Int) (w Int) (g Int))
    (! (and (not (tok.isByte (tok.pk v f))) (not (tok.isByte (tok.vk v f))) (not (tok.isByte (tok.cs v)))
            (not (= (tok.pk v f) (tok.vk w g))) (not (= (tok.pk v f) (tok.cs w))) (not (= (tok.vk v f) (tok.cs w))))
       :pattern ((tok.pk v f) (tok.vk w g)))))
; kinds of section tokens (used for the completeness direction of the readers: a complete section of the right kind is read)
(declare-fun tok.isPk (Int) Bool)
(declare-fun tok.isVk (Int) Bool)
(declare-fun tok.isCs (Int) Bool)
(axiom tok_kind_pkvk (forall ((v Int) (f Int)) (! (and (tok.isPk (tok.pk v f)) (tok.isVk (tok.vk v f))) :pattern ((tok.pk v f)) :pattern ((tok.vk v f)))))
(axiom tok_kind_cs (forall ((v Int)) (! (tok.isCs (tok.cs v)) :pattern ((tok.cs v)))))
(axiom tok_inj
  (forall ((v Int) (f Int) (w Int) (g Int))
    (and (=> (= (tok.pk v f) (tok.pk w g)) (= v w)) (=> (= (tok.vk v f) (tok.vk w g)) (= v w)))))
(axiom tok_cs_inj (forall ((v Int) (w Int)) (=> (= (tok.cs v) (tok.cs w)) (= v w))))
(declare-fun os.fileToks (Str) (Array Int Int))
(declare-fun os.fileLen (Str) Int)
(declare-fun cli.flagStr (Int Str) Str)
(declare-fun cli.flagInt (Int Str) Int)
(declare-fun cli.flagBool (Int Str) Bool)

; ---- ghost event traces (C14): an event appends (name, argument) to the trace ----
(declare-fun trace.ev (Int Str Int) Int)
(declare-fun trace.count (Int Str) Int)
(declare-fun trace.has (Int Str Int) Bool)
(axiom trace_count
  (forall ((t Int) (n Str) (a Int) (m Str))
    (! (= (trace.count (trace.ev t n a) m) (+ (trace.count t m) (ite (= n m) 1 0)))
       :pattern ((trace.count (trace.ev t n a) m)))))
(axiom trace_has
  (forall ((t Int) (n Str) (a Int) (m Str) (b Int))
    (! (= (trace.has (trace.ev t n a) m b) (or (and (= n m) (= a b)) (trace.has t m b)))
       :pattern ((trace.has (trace.ev t n a) m b)))))

; ---- metrics wiring (C20): uninterpreted constructors ----
(declare-fun prom.wrapped (Int Str) Int)
(declare-fun prom.gauge (Int Str) Int)
(declare-fun prom.counterVec (Int Str Str Str) Int)
(declare-fun prom.histVec (Int Str Str Str) Int)
(declare-fun prom.sumVec (Int Str Str Str) Int)
(declare-fun prom.inFlight (Int Int) Int)
(declare-fun prom.counter (Int Int) Int)
(declare-fun prom.duration (Int Int) Int)
(declare-fun prom.reqSize (Int Int) Int)
(declare-fun prom.respSize (Int Int) Int)
(declare-fun prom.metricsHandler (Int) Int)
(declare-fun prom.instrumented (Int Str Int) Int)
; the handler the wrapped mux registers for (registry, pattern, handler): gauge -> counter{method,code} -> duration -> sizes
(define-fun prom.instrumentedDef ((reg Int) (pattern Str) (h Int)) Int
  (prom.inFlight (prom.gauge (prom.wrapped reg pattern) "http_requests_in_flight")
    (prom.counter (prom.counterVec (prom.wrapped reg pattern) "http_requests_total" "method" "code")
      (prom.duration (prom.histVec (prom.wrapped reg pattern) "http_request_duration_seconds" "method" "code")
        (prom.reqSize (prom.sumVec (prom.wrapped reg pattern) "http_request_size_bytes" "method" "code")
          (prom.respSize (prom.sumVec (prom.wrapped reg pattern) "http_response_size_bytes" "method" "code") h))))))
(always-reveal prom.instrumentedDef)
