; tree.smt2 — the off-chain Poseidon tree (C18) as an immutable datatype.
; Node mirrors the heap: Full(dep, val, left, right) is a *PoseidonFullNode, Empty(dep) a *PoseidonEmptyNode (its table of
; empty-subtree hashes is an invariant of the struct, not part of the value), Nil the nil interface.
(declare-datatype Node ((ptree.Nil) (ptree.Full (ptree.fdep Int) (ptree.fval Int) (ptree.fl Node) (ptree.fr Node)) (ptree.Empty (ptree.edep Int))))

(define-fun ptree.isFull ((n Node)) Bool ((_ is ptree.Full) n))
(define-fun ptree.isEmpty ((n Node)) Bool ((_ is ptree.Empty) n))
(define-fun ptree.isNil ((n Node)) Bool ((_ is ptree.Nil) n))
(define-fun ptree.dep ((n Node)) Int (ite ((_ is ptree.Full) n) (ptree.fdep n) (ite ((_ is ptree.Empty) n) (ptree.edep n) (- 1))))
(always-reveal ptree.isFull ptree.isEmpty ptree.isNil ptree.dep)

; hash of the empty subtree of depth k (all leaves 0)
(define-fun-rec ptree.E ((k Int)) Int (ite (<= k 0) 0 (poseidon.hash2 (ptree.E (- k 1)) (ptree.E (- k 1)))))
; the value a node reports
(define-fun ptree.value ((n Node)) Int (ite ((_ is ptree.Full) n) (ptree.fval n) (ptree.E (ptree.edep n))))
(always-reveal ptree.value)

; representation invariant: children one level lower, inner full nodes cache the hash of their children's values
(define-fun-rec ptree.wf ((n Node)) Bool
  (ite ((_ is ptree.Full) n)
       (and (>= (ptree.fdep n) 0) (<= 0 (ptree.fval n)) (< (ptree.fval n) FIELD_P)
            (=> (> (ptree.fdep n) 0)
                (and (ptree.wf (ptree.fl n)) (ptree.wf (ptree.fr n))
                     (= (ptree.dep (ptree.fl n)) (- (ptree.fdep n) 1)) (= (ptree.dep (ptree.fr n)) (- (ptree.fdep n) 1))
                     (= (ptree.fval n) (poseidon.hash2 (ptree.value (ptree.fl n)) (ptree.value (ptree.fr n)))))))
       (and ((_ is ptree.Empty) n) (>= (ptree.edep n) 0))))

; the child on the path of index i (bit dep-1 of i: 0 = left)
(define-fun ptree.child ((n Node) (i Int)) Node (ite (= (bits.bit i (- (ptree.fdep n) 1)) 0) (ptree.fl n) (ptree.fr n)))
(define-fun ptree.other ((n Node) (i Int)) Node (ite (= (bits.bit i (- (ptree.fdep n) 1)) 0) (ptree.fr n) (ptree.fl n)))
(always-reveal ptree.child ptree.other)

; the leaf at (the low dep bits of) index i; never-written leaves are 0
(define-fun-rec ptree.leaf ((n Node) (i Int)) Int
  (ite ((_ is ptree.Full) n)
       (ite (<= (ptree.fdep n) 0) (ptree.fval n) (ptree.leaf (ptree.child n i) i))
       0))
; the sibling hash at level k (0 = leaf level) on the path of index i
(define-fun-rec ptree.sib ((n Node) (i Int) (k Int)) Int
  (ite ((_ is ptree.Full) n)
       (ite (<= (ptree.fdep n) 0) 0
            (ite (= k (- (ptree.fdep n) 1)) (ptree.value (ptree.other n i)) (ptree.sib (ptree.child n i) i k)))
       (ptree.E k)))

; two indices that agree on their low d bits address the same leaf of a depth-d tree
(define-fun-rec ptree.samePath ((i Int) (j Int) (d Int)) Bool
  (ite (<= d 0) true (and (= (bits.bit i (- d 1)) (bits.bit j (- d 1))) (ptree.samePath i j (- d 1)))))

; ---------------- from-scratch recomputation ----------------
; root of the complete tree of depth d over the leaves L[b .. b + 2^d)
(define-fun-rec ptree.dense ((L (Array Int Int)) (d Int) (b Int)) Int
  (ite (<= d 0) (select L b)
       (poseidon.hash2 (ptree.dense L (- d 1) b) (ptree.dense L (- d 1) (+ b (bits.pow2 (- d 1)))))))
; the current leaves of a tree as an array
(declare-fun ptree.leaves (Node) (Array Int Int))
(axiom leaves_sel
  (forall ((n Node) (t Int)) (! (= (select (ptree.leaves n) t) (ptree.leaf n t)) :pattern ((select (ptree.leaves n) t)))))

; ---------------- lemmas ----------------
(lemma hash2_field
  (forall ((a Int) (b Int)) (! (and (<= 0 (poseidon.hash2 a b)) (< (poseidon.hash2 a b) FIELD_P)) :pattern ((poseidon.hash2 a b))))
  :reveal (poseidon.hash2 poseidon.mix) :lemmas (st_split))
(lemma E_zero (forall ((k Int)) (=> (<= k 0) (= (ptree.E k) 0))) :reveal (ptree.E))
(lemma E_step (forall ((k Int)) (=> (> k 0) (= (ptree.E k) (poseidon.hash2 (ptree.E (- k 1)) (ptree.E (- k 1)))))) :reveal (ptree.E))
(lemma E_field (forall ((k Int)) (! (and (<= 0 (ptree.E k)) (< (ptree.E k) FIELD_P)) :pattern ((ptree.E k))))
  :lemmas (E_zero E_step hash2_field))

(lemma wf_value_field
  (forall ((n Node)) (! (=> (ptree.wf n) (and (<= 0 (ptree.value n)) (< (ptree.value n) FIELD_P))) :pattern ((ptree.wf n))))
  :unfold ((ptree.wf n)) :lemmas (E_field))
(lemma samePath_refl (forall ((i Int) (d Int)) (ptree.samePath i i d))
  :induct d :inst (i (- d 1)) :unfold ((ptree.samePath i i d)))

; a path of empty-subtree hashes over a zero leaf folds to the empty-subtree hash
(lemma fold_empty
  (forall ((d Int) (out (Array Int Int)) (path (Array Int Int)))
    (=> (and (>= d 0) (forall ((k Int)) (=> (and (<= 0 k) (< k d)) (= (select out k) (ptree.E k)))))
        (= (merkle.fold 0 out path d) (ptree.E d))))
  :induct d :inst ((- d 1) out path) :unfold ((merkle.fold 0 out path d)) :reveal (merkle.H2) :lemmas (E_zero E_step))

; folding the leaf with the sibling hashes along its path gives the node's value (the returned path authenticates the leaf)
(lemma fold_sib
  (forall ((n Node) (i Int) (out (Array Int Int)) (path (Array Int Int)))
    (=> (and (ptree.wf n)
             (forall ((k Int)) (=> (and (<= 0 k) (< k (ptree.dep n))) (= (select out k) (ptree.sib n i k))))
             (forall ((k Int)) (=> (and (<= 0 k) (< k (ptree.dep n))) (= (select path k) (bits.bit i k)))))
        (= (merkle.fold (ptree.leaf n i) out path (ptree.dep n)) (ptree.value n))))
  :induct (ptree.dep n) :inst ((ptree.child n i) i out path)
  :unfold ((merkle.fold (ptree.leaf n i) out path (ptree.dep n)) (ptree.wf n) (ptree.leaf n i))
  :reveal (ptree.sib merkle.H2) :lemmas (fold_empty bit_bool))

; ---- bits of indices below / above a power of two ----
(lemma bit_lt_pow2
  (forall ((t Int) (k Int)) (=> (and (<= 0 k) (<= 0 t) (< t (bits.pow2 k))) (= (bits.bit t k) 0)))
  :induct k :inst ((div t 2) (- k 1)) :unfold ((bits.bit t k) (bits.pow2 k)))
(lemma bit_top
  (forall ((t Int) (k Int)) (=> (and (<= 0 k) (<= (bits.pow2 k) t) (< t (* 2 (bits.pow2 k)))) (= (bits.bit t k) 1)))
  :induct k :inst ((div t 2) (- k 1)) :unfold ((bits.bit t k) (bits.pow2 k)))
(lemma bit_add_pow2
  (forall ((t Int) (k Int) (j Int)) (=> (and (<= 0 j) (< j k) (<= 0 t)) (= (bits.bit (+ t (bits.pow2 k)) j) (bits.bit t j))))
  :induct j :inst ((div t 2) (- k 1) (- j 1)) :unfold ((bits.bit (+ t (bits.pow2 k)) j) (bits.bit t j) (bits.pow2 k)) :lemmas (pow2_pos))
(lemma samePath_add
  (forall ((t Int) (k Int) (d Int)) (=> (and (<= 0 t) (<= d k)) (ptree.samePath (+ t (bits.pow2 k)) t d)))
  :induct d :inst (t k (- d 1)) :unfold ((ptree.samePath (+ t (bits.pow2 k)) t d)) :lemmas (bit_add_pow2))

; the leaf depends only on the low dep bits of the index
(lemma leaf_samePath
  (forall ((n Node) (i Int) (j Int)) (=> (and (ptree.wf n) (ptree.samePath i j (ptree.dep n))) (= (ptree.leaf n i) (ptree.leaf n j))))
  :induct (ptree.dep n) :inst ((ptree.child n i) i j)
  :unfold ((ptree.wf n) (ptree.leaf n i) (ptree.leaf n j) (ptree.samePath i j (ptree.dep n))))

; the all-zero complete tree hashes to the empty-subtree hash
(lemma dense_zero
  (forall ((L (Array Int Int)) (d Int) (b Int))
    (=> (and (<= 0 d) (forall ((u Int)) (=> (and (<= b u) (< u (+ b (bits.pow2 d)))) (= (select L u) 0))))
        (= (ptree.dense L d b) (ptree.E d))))
  :induct d :inst (L (- d 1) b) :inst (L (- d 1) (+ b (bits.pow2 (- d 1))))
  :unfold ((ptree.dense L d b) (bits.pow2 d)) :lemmas (E_zero E_step pow2_pos))

; leaves of the two halves of a full inner node
(lemma leaf_left
  (forall ((n Node) (u Int))
    (! (=> (and (ptree.wf n) ((_ is ptree.Full) n) (> (ptree.fdep n) 0) (<= 0 u) (< u (bits.pow2 (- (ptree.fdep n) 1))))
           (= (ptree.leaf n u) (ptree.leaf (ptree.fl n) u)))
       :pattern ((ptree.leaf n u) (ptree.leaf (ptree.fl n) u))))
  :unfold ((ptree.leaf n u)) :lemmas (bit_lt_pow2))
(lemma leaf_right
  (forall ((n Node) (v Int) (w Int))
    (! (=> (and (ptree.wf n) ((_ is ptree.Full) n) (> (ptree.fdep n) 0) (<= 0 w) (< w (bits.pow2 (- (ptree.fdep n) 1)))
                (= v (+ w (bits.pow2 (- (ptree.fdep n) 1)))))
           (= (ptree.leaf n v) (ptree.leaf (ptree.fr n) w)))
       :pattern ((ptree.leaf n v) (ptree.leaf (ptree.fr n) w))))
  :unfold ((ptree.leaf n v) (ptree.wf n)) :lemmas (bit_top leaf_samePath samePath_add))

; the cached value of a well-formed tree is the from-scratch recomputation over its leaves
(lemma dense_of_wf
  (forall ((n Node) (L (Array Int Int)) (b Int))
    (=> (and (ptree.wf n) (forall ((u Int)) (=> (and (<= b u) (< u (+ b (bits.pow2 (ptree.dep n))))) (= (select L u) (ptree.leaf n (- u b))))))
        (= (ptree.value n) (ptree.dense L (ptree.dep n) b))))
  :induct (ptree.dep n)
  :inst ((ptree.fl n) L b) :inst ((ptree.fr n) L (+ b (bits.pow2 (- (ptree.dep n) 1))))
  :unfold ((ptree.dense L (ptree.dep n) b) (ptree.wf n) (bits.pow2 (ptree.dep n)))
  :reveal (ptree.leaf) :lemmas (dense_zero leaf_left leaf_right pow2_pos))
(lemma dense_of_leaves
  (forall ((n Node)) (! (=> (ptree.wf n) (= (ptree.value n) (ptree.dense (ptree.leaves n) (ptree.dep n) 0)))
     :pattern ((ptree.wf n) (ptree.leaves n))))
  :lemmas (dense_of_wf leaves_sel))

; one-step unfoldings as triggered facts (used instead of revealing the recursive definitions in code VCs)
(lemma wf_unfold
  (forall ((n Node)) (! (= (ptree.wf n)
      (ite ((_ is ptree.Full) n)
       (and (>= (ptree.fdep n) 0) (<= 0 (ptree.fval n)) (< (ptree.fval n) FIELD_P)
            (=> (> (ptree.fdep n) 0)
                (and (ptree.wf (ptree.fl n)) (ptree.wf (ptree.fr n))
                     (= (ptree.dep (ptree.fl n)) (- (ptree.fdep n) 1)) (= (ptree.dep (ptree.fr n)) (- (ptree.fdep n) 1))
                     (= (ptree.fval n) (poseidon.hash2 (ptree.value (ptree.fl n)) (ptree.value (ptree.fr n)))))))
       (and ((_ is ptree.Empty) n) (>= (ptree.edep n) 0)))) :pattern ((ptree.wf n))))
  :reveal (ptree.wf))
(lemma leaf_unfold
  (forall ((n Node) (i Int)) (! (= (ptree.leaf n i)
      (ite ((_ is ptree.Full) n) (ite (<= (ptree.fdep n) 0) (ptree.fval n) (ptree.leaf (ptree.child n i) i)) 0))
     :pattern ((ptree.leaf n i))))
  :reveal (ptree.leaf))
(lemma sib_unfold
  (forall ((n Node) (i Int) (k Int)) (! (= (ptree.sib n i k)
      (ite ((_ is ptree.Full) n)
       (ite (<= (ptree.fdep n) 0) 0 (ite (= k (- (ptree.fdep n) 1)) (ptree.value (ptree.other n i)) (ptree.sib (ptree.child n i) i k)))
       (ptree.E k)))
     :pattern ((ptree.sib n i k))))
  :reveal (ptree.sib))
(lemma samePath_unfold
  (forall ((i Int) (j Int) (d Int)) (! (= (ptree.samePath i j d)
      (ite (<= d 0) true (and (= (bits.bit i (- d 1)) (bits.bit j (- d 1))) (ptree.samePath i j (- d 1)))))
     :pattern ((ptree.samePath i j d))))
  :reveal (ptree.samePath))

(lemma wf_dep
  (forall ((n Node)) (! (=> (ptree.wf n) (and (>= (ptree.dep n) 0) (not ((_ is ptree.Nil) n)))) :pattern ((ptree.wf n))))
  :unfold ((ptree.wf n)))
; fold_sib in the shape the code uses it: the path is the bit decomposition of the index
(lemma fold_path
  (forall ((n Node) (i Int) (out (Array Int Int)) (d Int) (v Int))
    (! (=> (and (ptree.wf n) (= d (ptree.dep n)) (= v (ptree.leaf n i))
                (forall ((k Int)) (=> (and (<= 0 k) (< k d)) (= (select out k) (ptree.sib n i k)))))
           (= (merkle.fold v out (bits.bitsOf i d) d) (ptree.value n)))
       :pattern ((ptree.wf n) (merkle.fold v out (bits.bitsOf i d) d))))
  :lemmas (fold_sib bitsOf_sel))
(lemma dense_of_leaves2
  (forall ((n Node) (d Int)) (! (=> (and (ptree.wf n) (= d (ptree.dep n))) (= (ptree.value n) (ptree.dense (ptree.leaves n) d 0)))
     :pattern ((ptree.dense (ptree.leaves n) d 0))))
  :lemmas (dense_of_leaves))

; removing the top power of two from both indices keeps the lower path
(lemma samePath_low
  (forall ((i Int) (j Int) (d Int)) (=> (and (> d 0) (ptree.samePath i j d)) (ptree.samePath i j (- d 1))))
  :unfold ((ptree.samePath i j d)))
(lemma samePath_sub
  (forall ((i Int) (j Int) (k Int) (d Int) (a Int) (b Int))
    (=> (and (<= d k) (<= 0 a) (<= 0 b) (or (= i a) (= i (+ a (bits.pow2 k)))) (or (= j b) (= j (+ b (bits.pow2 k)))) (ptree.samePath i j d))
        (ptree.samePath a b d)))
  :induct d :inst (i j k (- d 1) a b)
  :unfold ((ptree.samePath i j d) (ptree.samePath a b d)) :lemmas (bit_add_pow2))
; ---------------- facts used by the test-parameter generator (C08: emitted parameters are provable) ----------------
; below 2^d the index is determined by its d low bits
(lemma bit_top_val
  (forall ((t Int) (k Int)) (=> (and (<= 0 k) (<= 0 t) (< t (* 2 (bits.pow2 k)))) (= (bits.bit t k) (ite (< t (bits.pow2 k)) 0 1))))
  :lemmas (bit_lt_pow2 bit_top))
(lemma samePath_eq
  (forall ((i Int) (j Int) (d Int))
    (=> (and (<= 0 d) (<= 0 i) (< i (bits.pow2 d)) (<= 0 j) (< j (bits.pow2 d)) (ptree.samePath i j d)) (= i j)))
  :induct d
  :inst ((ite (< i (bits.pow2 (- d 1))) i (- i (bits.pow2 (- d 1)))) (ite (< j (bits.pow2 (- d 1))) j (- j (bits.pow2 (- d 1)))) (- d 1))
  :unfold ((ptree.samePath i j d) (bits.pow2 d))
  :lemmas (bit_top_val samePath_sub pow2_pos))
