; bits.smt2 — binary representation of naturals and of bit arrays (LSB first).
; Written from the property statements (C06, C01, C02), not from the code.

(define-fun bits.isbool ((x Int)) Bool (or (= x 0) (= x 1)))
(always-reveal bits.isbool)

(define-fun-rec bits.pow2 ((n Int)) Int (ite (<= n 0) 1 (* 2 (bits.pow2 (- n 1)))))

; bit k of the natural number v (k >= 0)
(define-fun-rec bits.bit ((v Int) (k Int)) Int (ite (<= k 0) (mod v 2) (bits.bit (div v 2) (- k 1))))

; value of bits j..n-1 of v, weighted from 2^0:  sum_{k=j}^{n-1} bit(v,k) 2^(k-j)
(define-fun-rec bits.hi ((v Int) (j Int) (n Int)) Int
  (ite (>= j n) 0 (+ (bits.bit v j) (* 2 (bits.hi v (+ j 1) n)))))

; value of b[j..n) as an LSB-first number: sum_{k=j}^{n-1} b[k] 2^(k-j)
(define-fun-rec bits.binvalFrom ((b (Array Int Int)) (j Int) (n Int)) Int
  (ite (>= j n) 0 (+ (select b j) (* 2 (bits.binvalFrom b (+ j 1) n)))))
(define-fun bits.binval ((b (Array Int Int)) (n Int)) Int (bits.binvalFrom b 0 n))

(define-fun-rec bits.allboolFrom ((b (Array Int Int)) (j Int) (n Int)) Bool
  (ite (>= j n) true (and (bits.isbool (select b j)) (bits.allboolFrom b (+ j 1) n))))
(define-fun bits.allbool ((b (Array Int Int)) (n Int)) Bool (bits.allboolFrom b 0 n))

; the n-bit LSB-first representation of v, as an array (uninterpreted; characterised by bitsOf_sel)
(declare-fun bits.bitsOf (Int Int) (Array Int Int))
(axiom bitsOf_sel
  (forall ((v Int) (n Int) (k Int))
    (! (= (select (bits.bitsOf v n) k) (ite (and (<= 0 k) (< k n)) (bits.bit v k) 0))
       :pattern ((select (bits.bitsOf v n) k)))))

; bit length of a positive integer (math/big.Int.BitLen): characterised, not computed
(declare-fun bits.bitlen (Int) Int)
(axiom bitlen_def
  (forall ((v Int))
    (! (=> (> v 0) (and (>= (bits.bitlen v) 1) (<= (bits.pow2 (- (bits.bitlen v) 1)) v) (< v (bits.pow2 (bits.bitlen v)))))
       :pattern ((bits.bitlen v)))))

; ---------------- lemmas ----------------

(lemma pow2_pos (forall ((n Int)) (>= (bits.pow2 n) 1))
  :induct n :reveal (bits.pow2))

(lemma pow2_step (forall ((n Int)) (=> (>= n 1) (= (bits.pow2 n) (* 2 (bits.pow2 (- n 1))))))
  :reveal (bits.pow2))

(lemma pow2_mono (forall ((a Int) (b Int)) (=> (and (<= 0 a) (<= a b)) (<= (bits.pow2 a) (bits.pow2 b))))
  :induct (- b a) :reveal (bits.pow2) :lemmas (pow2_pos))

(lemma bit_bool (forall ((v Int) (k Int)) (bits.isbool (bits.bit v k)))
  :induct k :reveal (bits.bit))

(lemma binvalFrom_bounds
  (forall ((b (Array Int Int)) (j Int) (n Int))
    (=> (bits.allboolFrom b j n)
        (and (<= 0 (bits.binvalFrom b j n)) (< (bits.binvalFrom b j n) (bits.pow2 (- n j))))))
  :induct (- n j) :reveal (bits.binvalFrom bits.allboolFrom bits.pow2))

(lemma hi_bounds
  (forall ((v Int) (j Int) (n Int))
    (and (<= 0 (bits.hi v j n)) (< (bits.hi v j n) (bits.pow2 (- n j)))))
  :induct (- n j) :reveal (bits.hi bits.pow2) :lemmas (bit_bool))

; shifting: bits j.. of v are bits j-1.. of v div 2
(lemma hi_shift
  (forall ((v Int) (j Int) (n Int))
    (=> (>= j 1) (= (bits.hi v j n) (bits.hi (div v 2) (- j 1) (- n 1)))))
  :induct (- n j) :reveal (bits.hi bits.bit))

; a natural below 2^n is the value of its n low bits
(lemma hi_id
  (forall ((v Int) (n Int))
    (=> (and (<= 0 v) (<= 0 n) (< v (bits.pow2 n))) (= (bits.hi v 0 n) v)))
  :induct n :reveal (bits.hi bits.bit bits.pow2) :lemmas (hi_shift))

; uniqueness of binary representation, suffix form: if b[j..n) are booleans then bit k of the value is b[j+k]
(lemma binvalFrom_split
  (forall ((b (Array Int Int)) (j Int) (n Int))
    (=> (< j n) (= (bits.binvalFrom b j n) (+ (select b j) (* 2 (bits.binvalFrom b (+ j 1) n))))))
  :reveal (bits.binvalFrom))

(lemma allboolFrom_split
  (forall ((b (Array Int Int)) (j Int) (n Int))
    (=> (< j n) (= (bits.allboolFrom b j n) (and (bits.isbool (select b j)) (bits.allboolFrom b (+ j 1) n)))))
  :reveal (bits.allboolFrom))

(lemma allboolFrom_elem
  (forall ((b (Array Int Int)) (j Int) (n Int) (k Int))
    (=> (and (bits.allboolFrom b j n) (<= j k) (< k n)) (bits.isbool (select b k))))
  :induct (- n j) :reveal (bits.allboolFrom))

(lemma allboolFrom_intro
  (forall ((b (Array Int Int)) (j Int) (n Int))
    (=> (forall ((k Int)) (=> (and (<= j k) (< k n)) (bits.isbool (select b k)))) (bits.allboolFrom b j n)))
  :induct (- n j) :reveal (bits.allboolFrom))

; bit k (k < n-j) of binvalFrom(b,j,n) is b[j+k]
(lemma bit_of_binval
  (forall ((b (Array Int Int)) (j Int) (n Int) (k Int))
    (=> (and (bits.allboolFrom b j n) (<= 0 k) (< k (- n j)))
        (= (bits.bit (bits.binvalFrom b j n) k) (select b (+ j k)))))
  :induct k :inst (b (+ j 1) n (- k 1))
  :unfold ((bits.bit (bits.binvalFrom b j n) k) (bits.binvalFrom b j n) (bits.allboolFrom b j n)))

; the value of the bits of v is v (for v < 2^n): binval(bitsOf(v,n)) = v
(lemma binvalFrom_bitsOf
  (forall ((v Int) (n Int) (j Int))
    (=> (and (<= 0 j) (<= j n)) (= (bits.binvalFrom (bits.bitsOf v n) j n) (bits.hi v j n))))
  :induct (- n j) :reveal (bits.binvalFrom bits.hi) :lemmas (bitsOf_sel))

(lemma allbool_bitsOf
  (forall ((v Int) (n Int) (j Int))
    (=> (<= 0 j) (bits.allboolFrom (bits.bitsOf v n) j n)))
  :induct (- n j) :reveal (bits.allboolFrom) :lemmas (bitsOf_sel bit_bool))

; uniqueness: boolean bits with value v (< 2^n) are the bits of v
(lemma bits_unique
  (forall ((b (Array Int Int)) (n Int) (k Int))
    (=> (and (bits.allboolFrom b 0 n) (<= 0 k) (< k n))
        (= (select b k) (bits.bit (bits.binvalFrom b 0 n) k))))
  :lemmas (bit_of_binval))

; ---- one-step unfoldings as lemmas (so that the recursive definitions can stay opaque in VCs) ----
(lemma binvalFrom_end (forall ((b (Array Int Int)) (j Int) (n Int)) (=> (>= j n) (= (bits.binvalFrom b j n) 0)))
  :reveal (bits.binvalFrom))
(lemma allboolFrom_end (forall ((b (Array Int Int)) (j Int) (n Int)) (=> (>= j n) (bits.allboolFrom b j n)))
  :reveal (bits.allboolFrom))
(lemma hi_end (forall ((v Int) (j Int) (n Int)) (=> (>= j n) (= (bits.hi v j n) 0)))
  :reveal (bits.hi))
(lemma hi_split (forall ((v Int) (j Int) (n Int)) (=> (< j n) (= (bits.hi v j n) (+ (bits.bit v j) (* 2 (bits.hi v (+ j 1) n))))))
  :reveal (bits.hi))

; ---- extensionality on the inspected range ----
(lemma binvalFrom_ext
  (forall ((a (Array Int Int)) (c (Array Int Int)) (j Int) (n Int))
    (! (=> (forall ((k Int)) (=> (and (<= j k) (< k n)) (= (select a k) (select c k))))
        (= (bits.binvalFrom a j n) (bits.binvalFrom c j n)))
       :pattern ((bits.binvalFrom a j n) (bits.binvalFrom c j n))))
  :induct (- n j) :reveal (bits.binvalFrom))
(lemma allboolFrom_ext
  (forall ((a (Array Int Int)) (c (Array Int Int)) (j Int) (n Int))
    (! (=> (forall ((k Int)) (=> (and (<= j k) (< k n)) (= (select a k) (select c k))))
        (= (bits.allboolFrom a j n) (bits.allboolFrom c j n)))
       :pattern ((bits.allboolFrom a j n) (bits.allboolFrom c j n))))
  :induct (- n j) :reveal (bits.allboolFrom))

; growing the inspected range at the upper end
(lemma allboolFrom_snoc
  (forall ((b (Array Int Int)) (j Int) (m Int))
    (=> (<= j m) (= (bits.allboolFrom b j (+ m 1)) (and (bits.allboolFrom b j m) (bits.isbool (select b m))))))
  :induct (- m j) :reveal (bits.allboolFrom))

(lemma pow2_32 (= (bits.pow2 32) 4294967296) :reveal (bits.pow2))
(lemma pow2_le_32 (forall ((n Int)) (=> (and (<= 0 n) (<= n 32)) (<= (bits.pow2 n) 4294967296)))
  :lemmas (pow2_32 pow2_mono))

(lemma pow2_62 (= (bits.pow2 62) 4611686018427387904) :lemmas (pow2_32 pow2_step))
(lemma pow2_le_62 (forall ((n Int)) (=> (<= n 62) (<= (bits.pow2 n) 4611686018427387904)))
  :lemmas (pow2_62 pow2_mono) :reveal (bits.pow2))

(lemma pow2_254 (= (bits.pow2 254) 28948022309329048855892746252171976963317496166410141009864396001978282409984) :reveal (bits.pow2))
(lemma pow2_256 (= (bits.pow2 256) 115792089237316195423570985008687907853269984665640564039457584007913129639936) :lemmas (pow2_254 pow2_step))

; splitting a range
(lemma allboolFrom_append
  (forall ((b (Array Int Int)) (j Int) (m Int) (n Int))
    (! (=> (and (<= j m) (<= m n)) (= (bits.allboolFrom b j n) (and (bits.allboolFrom b j m) (bits.allboolFrom b m n))))
       :pattern ((bits.allboolFrom b j m) (bits.allboolFrom b m n))))
  :lemmas (allboolFrom_elem allboolFrom_intro))

; the bits of the two Keccak domain bytes (0x01 pre-FIPS Keccak, 0x06 SHA-3), least significant first
(lemma bit_of_1
  (and (= (bits.bit 1 0) 1) (= (bits.bit 1 1) 0) (= (bits.bit 1 2) 0) (= (bits.bit 1 3) 0)
       (= (bits.bit 1 4) 0) (= (bits.bit 1 5) 0) (= (bits.bit 1 6) 0) (= (bits.bit 1 7) 0))
  :reveal (bits.bit))
(lemma bit_of_6
  (and (= (bits.bit 6 0) 0) (= (bits.bit 6 1) 1) (= (bits.bit 6 2) 1) (= (bits.bit 6 3) 0)
       (= (bits.bit 6 4) 0) (= (bits.bit 6 5) 0) (= (bits.bit 6 6) 0) (= (bits.bit 6 7) 0))
  :reveal (bits.bit))
