; merkle.smt2 — Merkle paths and the running-root recursions of C01 / C02.
; Written from the property statements. H2 is the two-input tree hash (Poseidon over BN254, see poseidon.smt2 / C05).

(define-fun merkle.H2 ((a Int) (b Int)) Int (poseidon.hash2 a b))

; one level: `cur` is the running node, `sib` its sibling, dir = 1 iff the running node is the right child
(define-fun merkle.step ((dir Int) (sib Int) (cur Int)) Int
  (ite (= dir 1) (merkle.H2 sib cur) (merkle.H2 cur sib)))
(always-reveal merkle.step)

; root of the k-level path from `leaf` with siblings sibs[0..k) and direction bits path[0..k), leaf level first
(define-fun-rec merkle.fold ((leaf Int) (sibs (Array Int Int)) (path (Array Int Int)) (k Int)) Int
  (ite (<= k 0) leaf
       (merkle.step (select path (- k 1)) (select sibs (- k 1)) (merkle.fold leaf sibs path (- k 1)))))

; same with the leaf stored in front of the siblings: proof[0] = leaf, proof[1..k] = siblings
(define-fun-rec merkle.foldP ((proof (Array Int Int)) (path (Array Int Int)) (k Int)) Int
  (ite (<= k 0) (select proof 0)
       (merkle.step (select path (- k 1)) (select proof k) (merkle.foldP proof path (- k 1)))))

; ---------- insertion batch (C01) ----------
; position of the j-th insertion; the circuit computes it in the field
(define-fun merkle.insIdx ((start Int) (j Int)) Int (mod (+ start j) FIELD_P))
(always-reveal merkle.insIdx)

; root after the first k insertions (k >= 1: recomputed from the k-th commitment and its sibling path)
(define-fun merkle.insRoot ((start Int) (pre Int) (idc (Array Int Int)) (mps (Array Int (Array Int Int))) (d Int) (k Int)) Int
  (ite (<= k 0) pre
       (merkle.fold (select idc (- k 1)) (select mps (- k 1)) (bits.bitsOf (merkle.insIdx start (- k 1)) d) d)))

; the first k insertions are valid: position inside the tree, leaf empty (value 0) in the running tree
(define-fun-rec merkle.insValid ((start Int) (pre Int) (idc (Array Int Int)) (mps (Array Int (Array Int Int))) (d Int) (k Int)) Bool
  (ite (<= k 0) true
       (and (merkle.insValid start pre idc mps d (- k 1))
            (< (merkle.insIdx start (- k 1)) (bits.pow2 d))
            (= (merkle.fold 0 (select mps (- k 1)) (bits.bitsOf (merkle.insIdx start (- k 1)) d) d)
               (merkle.insRoot start pre idc mps d (- k 1))))))

; ---------- deletion batch (C02) ----------
; slot with index idx: bit d set = padding (root unchanged); else the leaf is replaced by the empty value 0
(define-fun-rec merkle.delRoot ((pre Int) (dix (Array Int Int)) (idc (Array Int Int)) (mps (Array Int (Array Int Int))) (d Int) (k Int)) Int
  (ite (<= k 0) pre
       (ite (= (bits.bit (select dix (- k 1)) d) 1)
            (merkle.delRoot pre dix idc mps d (- k 1))
            (merkle.fold 0 (select mps (- k 1)) (bits.bitsOf (select dix (- k 1)) d) d))))

(define-fun-rec merkle.delValid ((pre Int) (dix (Array Int Int)) (idc (Array Int Int)) (mps (Array Int (Array Int Int))) (d Int) (k Int)) Bool
  (ite (<= k 0) true
       (and (merkle.delValid pre dix idc mps d (- k 1))
            (< (select dix (- k 1)) (bits.pow2 (+ d 1)))
            (or (= (bits.bit (select dix (- k 1)) d) 1)
                (= (merkle.fold (select idc (- k 1)) (select mps (- k 1)) (bits.bitsOf (select dix (- k 1)) d) d)
                   (merkle.delRoot pre dix idc mps d (- k 1)))))))

; ---------- lemmas ----------
(lemma foldP_end (forall ((p (Array Int Int)) (q (Array Int Int)) (k Int)) (=> (<= k 0) (= (merkle.foldP p q k) (select p 0))))
  :reveal (merkle.foldP))
(lemma foldP_split
  (forall ((p (Array Int Int)) (q (Array Int Int)) (k Int))
    (=> (> k 0) (= (merkle.foldP p q k) (merkle.step (select q (- k 1)) (select p k) (merkle.foldP p q (- k 1))))))
  :reveal (merkle.foldP))

; a proof array that is leaf :: sibs, read with a path that agrees with q on [0,k), folds to fold(leaf, sibs, q, k)
(lemma foldP_is_fold
  (forall ((p (Array Int Int)) (pa (Array Int Int)) (leaf Int) (sibs (Array Int Int)) (q (Array Int Int)) (k Int))
    (! (=> (and (= (select p 0) leaf)
             (forall ((t Int)) (=> (and (<= 1 t) (<= t k)) (= (select p t) (select sibs (- t 1)))))
             (forall ((t Int)) (=> (and (<= 0 t) (< t k)) (= (select pa t) (select q t)))))
        (= (merkle.foldP p pa k) (merkle.fold leaf sibs q k)))
      :pattern ((merkle.foldP p pa k) (merkle.fold leaf sibs q k))))
  :induct k :reveal (merkle.foldP merkle.fold))

(lemma insValid_split
  (forall ((start Int) (pre Int) (idc (Array Int Int)) (mps (Array Int (Array Int Int))) (d Int) (k Int))
    (=> (> k 0)
      (= (merkle.insValid start pre idc mps d k)
         (and (merkle.insValid start pre idc mps d (- k 1))
              (< (merkle.insIdx start (- k 1)) (bits.pow2 d))
              (= (merkle.fold 0 (select mps (- k 1)) (bits.bitsOf (merkle.insIdx start (- k 1)) d) d)
                 (merkle.insRoot start pre idc mps d (- k 1)))))))
  :reveal (merkle.insValid))
(lemma insValid_end
  (forall ((start Int) (pre Int) (idc (Array Int Int)) (mps (Array Int (Array Int Int))) (d Int) (k Int))
    (=> (<= k 0) (merkle.insValid start pre idc mps d k)))
  :reveal (merkle.insValid))

(lemma delValid_split
  (forall ((pre Int) (dix (Array Int Int)) (idc (Array Int Int)) (mps (Array Int (Array Int Int))) (d Int) (k Int))
    (=> (> k 0)
      (= (merkle.delValid pre dix idc mps d k)
         (and (merkle.delValid pre dix idc mps d (- k 1))
              (< (select dix (- k 1)) (bits.pow2 (+ d 1)))
              (or (= (bits.bit (select dix (- k 1)) d) 1)
                  (= (merkle.fold (select idc (- k 1)) (select mps (- k 1)) (bits.bitsOf (select dix (- k 1)) d) d)
                     (merkle.delRoot pre dix idc mps d (- k 1))))))))
  :reveal (merkle.delValid))
(lemma delValid_end
  (forall ((pre Int) (dix (Array Int Int)) (idc (Array Int Int)) (mps (Array Int (Array Int Int))) (d Int) (k Int))
    (=> (<= k 0) (merkle.delValid pre dix idc mps d k)))
  :reveal (merkle.delValid))
(lemma delRoot_split
  (forall ((pre Int) (dix (Array Int Int)) (idc (Array Int Int)) (mps (Array Int (Array Int Int))) (d Int) (k Int))
    (=> (> k 0)
      (= (merkle.delRoot pre dix idc mps d k)
         (ite (= (bits.bit (select dix (- k 1)) d) 1)
              (merkle.delRoot pre dix idc mps d (- k 1))
              (merkle.fold 0 (select mps (- k 1)) (bits.bitsOf (select dix (- k 1)) d) d)))))
  :reveal (merkle.delRoot))
(lemma delRoot_end
  (forall ((pre Int) (dix (Array Int Int)) (idc (Array Int Int)) (mps (Array Int (Array Int Int))) (d Int) (k Int))
    (=> (<= k 0) (= (merkle.delRoot pre dix idc mps d k) pre)))
  :reveal (merkle.delRoot))

; the validity of the first k rounds depends only on the first k commitments and paths
(lemma insValid_ext
  (forall ((start Int) (pre Int) (idc (Array Int Int)) (mps (Array Int (Array Int Int))) (idc2 (Array Int Int)) (mps2 (Array Int (Array Int Int))) (d Int) (k Int))
    (! (=> (forall ((t Int)) (=> (and (<= 0 t) (< t k)) (and (= (select idc t) (select idc2 t)) (= (select mps t) (select mps2 t)))))
           (= (merkle.insValid start pre idc mps d k) (merkle.insValid start pre idc2 mps2 d k)))
       :pattern ((merkle.insValid start pre idc mps d k) (merkle.insValid start pre idc2 mps2 d k))))
  :induct k :inst (start pre idc mps idc2 mps2 d (- k 1))
  :unfold ((merkle.insValid start pre idc mps d k) (merkle.insValid start pre idc2 mps2 d k))
  :reveal (merkle.insRoot))
(lemma delRoot_ext
  (forall ((pre Int) (dix (Array Int Int)) (idc (Array Int Int)) (mps (Array Int (Array Int Int))) (dix2 (Array Int Int)) (idc2 (Array Int Int)) (mps2 (Array Int (Array Int Int))) (d Int) (k Int))
    (! (=> (forall ((t Int)) (=> (and (<= 0 t) (< t k)) (and (= (select dix t) (select dix2 t)) (= (select idc t) (select idc2 t)) (= (select mps t) (select mps2 t)))))
           (= (merkle.delRoot pre dix idc mps d k) (merkle.delRoot pre dix2 idc2 mps2 d k)))
       :pattern ((merkle.delRoot pre dix idc mps d k) (merkle.delRoot pre dix2 idc2 mps2 d k))))
  :induct k :inst (pre dix idc mps dix2 idc2 mps2 d (- k 1))
  :unfold ((merkle.delRoot pre dix idc mps d k) (merkle.delRoot pre dix2 idc2 mps2 d k)))
(lemma delValid_ext
  (forall ((pre Int) (dix (Array Int Int)) (idc (Array Int Int)) (mps (Array Int (Array Int Int))) (dix2 (Array Int Int)) (idc2 (Array Int Int)) (mps2 (Array Int (Array Int Int))) (d Int) (k Int))
    (! (=> (forall ((t Int)) (=> (and (<= 0 t) (< t k)) (and (= (select dix t) (select dix2 t)) (= (select idc t) (select idc2 t)) (= (select mps t) (select mps2 t)))))
           (= (merkle.delValid pre dix idc mps d k) (merkle.delValid pre dix2 idc2 mps2 d k)))
       :pattern ((merkle.delValid pre dix idc mps d k) (merkle.delValid pre dix2 idc2 mps2 d k))))
  :induct k :inst (pre dix idc mps dix2 idc2 mps2 d (- k 1))
  :unfold ((merkle.delValid pre dix idc mps d k) (merkle.delValid pre dix2 idc2 mps2 d k))
  :lemmas (delRoot_ext))
