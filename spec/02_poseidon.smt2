; poseidon.smt2 — the Poseidon permutation (HADES) over the BN254 scalar field for widths t = 2 and t = 3,
; as specified for circomlib/iden3: x^5 S-box, 4 full rounds, RP(t) partial rounds (56 for t=2, 57 for t=3),
; 4 full rounds, capacity element (state[0]) initialised to 0, output = state[0].
; The round-constant and MDS tables are the repository's tables (abstract here; their values are tied to
; the reference implementation by polynomial identity testing, see DESIGN.md C05).

(declare-const g.poseidon.CONSTANTS_2 (Array Int (Array Int Int)))
(declare-const g.poseidon.CONSTANTS_3 (Array Int (Array Int Int)))
(declare-const g.poseidon.MDS_2 (Array Int (Array Int Int)))
(declare-const g.poseidon.MDS_3 (Array Int (Array Int Int)))

(define-fun poseidon.C ((t Int) (r Int) (j Int)) Int
  (select (select (ite (= t 2) g.poseidon.CONSTANTS_2 g.poseidon.CONSTANTS_3) r) j))
(define-fun poseidon.M ((t Int) (i Int) (j Int)) Int
  (select (select (ite (= t 2) g.poseidon.MDS_2 g.poseidon.MDS_3) i) j))
(define-fun poseidon.RP ((t Int)) Int (ite (= t 2) 56 57))
(always-reveal poseidon.C poseidon.M poseidon.RP)

(define-fun poseidon.pow5 ((x Int)) Int (mod (* x x x x x) FIELD_P))

; element i of (MDS · y) for width t; y2 is ignored for t = 2
(define-fun poseidon.mix ((t Int) (i Int) (y0 Int) (y1 Int) (y2 Int)) Int
  (ite (= t 2)
       (mod (+ (* y0 (poseidon.M t i 0)) (* y1 (poseidon.M t i 1))) FIELD_P)
       (mod (+ (* y0 (poseidon.M t i 0)) (* y1 (poseidon.M t i 1)) (* y2 (poseidon.M t i 2))) FIELD_P)))

; add-round-constant followed by the S-box where it applies
(define-fun poseidon.arkS ((x Int) (c Int) (sb Bool)) Int
  (ite sb (poseidon.pow5 (mod (+ x c) FIELD_P)) (mod (+ x c) FIELD_P)))

(define-fun poseidon.isFull ((t Int) (r Int)) Bool (or (< r 4) (>= r (+ 4 (poseidon.RP t)))))
(always-reveal poseidon.isFull)

; state element i after k rounds on the initial state (x0, x1, x2)
(define-fun-rec poseidon.st ((t Int) (k Int) (i Int) (x0 Int) (x1 Int) (x2 Int)) Int
  (ite (<= k 0) (ite (= i 0) x0 (ite (= i 1) x1 x2))
    (poseidon.mix t i
      (poseidon.arkS (poseidon.st t (- k 1) 0 x0 x1 x2) (poseidon.C t (- k 1) 0) true)
      (poseidon.arkS (poseidon.st t (- k 1) 1 x0 x1 x2) (poseidon.C t (- k 1) 1) (poseidon.isFull t (- k 1)))
      (poseidon.arkS (poseidon.st t (- k 1) 2 x0 x1 x2) (poseidon.C t (- k 1) 2) (poseidon.isFull t (- k 1))))))

(define-fun poseidon.hash1 ((a Int)) Int (poseidon.st 2 64 0 0 a 0))
(define-fun poseidon.hash2 ((a Int) (b Int)) Int (poseidon.st 3 65 0 0 a b))

(lemma st_end (forall ((t Int) (k Int) (i Int) (x0 Int) (x1 Int) (x2 Int))
    (=> (<= k 0) (= (poseidon.st t k i x0 x1 x2) (ite (= i 0) x0 (ite (= i 1) x1 x2)))))
  :reveal (poseidon.st))
(lemma st_split (forall ((t Int) (k Int) (i Int) (x0 Int) (x1 Int) (x2 Int))
    (=> (> k 0) (= (poseidon.st t k i x0 x1 x2)
      (poseidon.mix t i
        (poseidon.arkS (poseidon.st t (- k 1) 0 x0 x1 x2) (poseidon.C t (- k 1) 0) true)
        (poseidon.arkS (poseidon.st t (- k 1) 1 x0 x1 x2) (poseidon.C t (- k 1) 1) (poseidon.isFull t (- k 1)))
        (poseidon.arkS (poseidon.st t (- k 1) 2 x0 x1 x2) (poseidon.C t (- k 1) 2) (poseidon.isFull t (- k 1)))))))
  :reveal (poseidon.st))
