; keccak.smt2 — Keccak-256 / SHA3-256 over LSB-first bit strings.
; keccak.digest(data, n, dom): the 256 output bits (as an array) of the sponge with rate 1088, capacity 512,
; 24 rounds, domain byte `dom` (0x01 = legacy Keccak, 0x06 = SHA-3) on the n-bit message data[0..n).
(declare-fun keccak.digest ((Array Int Int) Int Int) (Array Int Int))

; the digest depends only on the first n message bits
(axiom keccak_ext
  (forall ((a (Array Int Int)) (c (Array Int Int)) (n Int) (d Int))
    (! (=> (forall ((t Int)) (=> (and (<= 0 t) (< t n)) (= (select a t) (select c t))))
           (= (keccak.digest a n d) (keccak.digest c n d)))
       :pattern ((keccak.digest a n d) (keccak.digest c n d)))))
; digest bits are bits
(axiom digest_bool
  (forall ((a (Array Int Int)) (n Int) (d Int))
    (! (bits.allboolFrom (keccak.digest a n d) 0 256) :pattern ((keccak.digest a n d)))))
