; link.smt2 — towards linking the byte-level packing specification (C08) with the bit-level one (C03): the two packings
; of the insertion batch agree bit for bit (bits LSB-first inside bytes, bytes big-endian). The deletion packing, the
; hash and the final recomposition are linked by reference vectors only (thorough tier, DESIGN.md 13.4); no contract
; depends on this file.

(lemma bit_div2 (forall ((v Int) (k Int)) (=> (>= k 1) (= (bits.bit v k) (bits.bit (div v 2) (- k 1))))) :reveal (bits.bit))
; shifting a byte out moves every bit down by eight
(lemma bit_div256
  (forall ((v Int) (k Int)) (=> (and (<= 0 v) (<= 0 k)) (= (bits.bit (div v 256) k) (bits.bit v (+ k 8)))))
  :induct k :inst ((div v 2) (- k 1))
  :unfold ((bits.bit (div v 256) k) (bits.bit v (+ k 8)) (bits.bit v 8) (bits.bit (div v 2) 7) (bits.bit (div (div v 2) 2) 6)
           (bits.bit (div (div (div v 2) 2) 2) 5) (bits.bit (div (div (div (div v 2) 2) 2) 2) 4)
           (bits.bit (div (div (div (div (div v 2) 2) 2) 2) 2) 3) (bits.bit (div (div (div (div (div (div v 2) 2) 2) 2) 2) 2) 2)
           (bits.bit (div (div (div (div (div (div (div v 2) 2) 2) 2) 2) 2) 2) 1)
           (bits.bit (div (div (div (div (div (div (div (div v 2) 2) 2) 2) 2) 2) 2) 2) 0)))
; the low byte carries the low eight bits
(lemma bit_mod256
  (forall ((v Int)) (=> (<= 0 v)
     (and (= (bits.bit (mod v 256) 0) (bits.bit v 0)) (= (bits.bit (mod v 256) 1) (bits.bit v 1)) (= (bits.bit (mod v 256) 2) (bits.bit v 2))
          (= (bits.bit (mod v 256) 3) (bits.bit v 3)) (= (bits.bit (mod v 256) 4) (bits.bit v 4)) (= (bits.bit (mod v 256) 5) (bits.bit v 5))
          (= (bits.bit (mod v 256) 6) (bits.bit v 6)) (= (bits.bit (mod v 256) 7) (bits.bit v 7)))))
  :reveal (bits.bit))

; bit z of byte j (0 = most significant) of the w-byte big-endian form of v is bit 8(w-1-j)+z of v
(lemma beByte_bit
  (forall ((v Int) (w Int) (j Int) (z Int))
    (=> (and (<= 0 v) (<= 0 j) (< j w) (<= 0 z) (< z 8))
        (= (bits.bit (bytes.beByte v w j) z) (bits.bit v (+ (* 8 (- (- w 1) j)) z)))))
  :induct w :inst ((div v 256) (- w 1) j z)
  :unfold ((bytes.beByte v w j)) :lemmas (bit_div256 bit_mod256))

; the LSB-first bit string of a byte string
(declare-fun link.bits8 ((Array Int Int)) (Array Int Int))
(axiom bits8_sel
  (forall ((a (Array Int Int)) (t Int))
    (! (= (select (link.bits8 a) t) (bits.bit (select a (div t 8)) (mod t 8))) :pattern ((select (link.bits8 a) t)))))

; the two packings of the insertion batch agree bit for bit
(lemma insPack_link
  (forall ((start Int) (pre Int) (post Int) (idc (Array Int Int)) (t Int))
    (=> (and (<= 0 t) (<= 0 start) (<= 0 pre) (<= 0 post) (=> (>= t 544) (<= 0 (select idc (div (- t 544) 256)))))
        (= (select (link.bits8 (pack.insBytes start pre post idc)) t) (pack.insBit start pre post idc t))))
  :lemmas (bits8_sel insBytes_sel beByte_bit))

; the deletion packing, region by region (indices, pre-root, post-root)
(lemma delPack_link_idx
  (forall ((dix (Array Int Int)) (pre Int) (post Int) (b Int) (q Int) (r Int))
    (=> (and (<= 0 q) (< q b) (<= 0 r) (< r 32) (<= 0 (select dix q)))
        (= (select (link.bits8 (pack.delBytes dix pre post b)) (+ (* 32 q) r)) (pack.delBit dix pre post b (+ (* 32 q) r)))))
  :lemmas (bits8_sel delBytes_sel beByte_bit))
(lemma delPack_link_pre
  (forall ((dix (Array Int Int)) (pre Int) (post Int) (b Int) (u Int))
    (=> (and (<= 0 b) (<= 0 u) (< u 256) (<= 0 pre))
        (= (select (link.bits8 (pack.delBytes dix pre post b)) (+ (* 32 b) u)) (pack.delBit dix pre post b (+ (* 32 b) u)))))
  :lemmas (bits8_sel delBytes_sel beByte_bit))
(lemma delPack_link_post
  (forall ((dix (Array Int Int)) (pre Int) (post Int) (b Int) (u Int))
    (=> (and (<= 0 b) (<= 0 u) (< u 256) (<= 0 post))
        (= (select (link.bits8 (pack.delBytes dix pre post b)) (+ (* 32 b) 256 u)) (pack.delBit dix pre post b (+ (* 32 b) 256 u)))))
  :lemmas (bits8_sel delBytes_sel beByte_bit))

; ---------------- value link: big-endian bytes of a bit string vs. pack.beval ----------------
; byte k of an LSB-first bit string
(define-fun link.byteOf ((d (Array Int Int)) (k Int)) Int
  (+ (select d (* 8 k)) (* 2 (select d (+ (* 8 k) 1))) (* 4 (select d (+ (* 8 k) 2))) (* 8 (select d (+ (* 8 k) 3)))
     (* 16 (select d (+ (* 8 k) 4))) (* 32 (select d (+ (* 8 k) 5))) (* 64 (select d (+ (* 8 k) 6))) (* 128 (select d (+ (* 8 k) 7)))))
(always-reveal link.byteOf)

; eight steps of binvalFrom at once
(lemma binvalFrom_8
  (forall ((s (Array Int Int)) (j Int) (n Int))
    (=> (<= (+ j 8) n)
        (= (bits.binvalFrom s j n)
           (+ (select s j) (* 2 (select s (+ j 1))) (* 4 (select s (+ j 2))) (* 8 (select s (+ j 3))) (* 16 (select s (+ j 4)))
              (* 32 (select s (+ j 5))) (* 64 (select s (+ j 6))) (* 128 (select s (+ j 7))) (* 256 (bits.binvalFrom s (+ j 8) n))))))
  :unfold ((bits.binvalFrom s j n) (bits.binvalFrom s (+ j 1) n) (bits.binvalFrom s (+ j 2) n) (bits.binvalFrom s (+ j 3) n)
           (bits.binvalFrom s (+ j 4) n) (bits.binvalFrom s (+ j 5) n) (bits.binvalFrom s (+ j 6) n) (bits.binvalFrom s (+ j 7) n)))

; the top m bytes of the swapped string are the big-endian number of the first m bytes
(lemma beval_bytes
  (forall ((d (Array Int Int)) (h (Array Int Int)) (mm Int) (m Int))
    (=> (and (<= 0 m) (<= m mm) (forall ((k Int)) (=> (and (<= 0 k) (< k mm)) (= (select h k) (link.byteOf d k)))))
        (= (bits.binvalFrom (pack.beSwap d (* 8 mm)) (* 8 (- mm m)) (* 8 mm)) (bytes.beIntFrom h 0 m))))
  :induct m :inst (d h mm (- m 1))
  :unfold ((bytes.beIntFrom h 0 m))
  :lemmas (binvalFrom_8 binvalFrom_end beSwap_sel))

(lemma beval_bytes32
  (forall ((d (Array Int Int)) (h (Array Int Int)))
    (! (=> (forall ((k Int)) (=> (and (<= 0 k) (< k 32)) (= (select h k) (link.byteOf d k))))
           (= (pack.beval d 256) (bytes.beIntFrom h 0 32)))
       :pattern ((pack.beval d 256) (bytes.beIntFrom h 0 32))))
  :lemmas (beval_bytes))

; ASSUMED: the library Keccak-256 on bytes is the bit-level specification with bits LSB-first inside bytes
; (validated by the input-hash link vectors of the thorough tier)
(axiom keccakb_def
  (forall ((a (Array Int Int)) (n Int) (k Int))
    (! (=> (and (<= 0 k) (< k 32)) (= (select (keccakb.hash256 a n) k) (link.byteOf (keccak.digest (link.bits8 a) (* 8 n) 1) k)))
       :pattern ((select (keccakb.hash256 a n) k)))))

; the value the off-chain helper computes is the value the circuit enforces (before reduction modulo r)
(lemma link_ins
  (forall ((start Int) (pre Int) (post Int) (idc (Array Int Int)) (n Int))
    (! (=> (and (<= 68 n) (<= 0 start) (<= 0 pre) (<= 0 post)
                (forall ((k Int)) (=> (and (<= 0 k) (< (+ 68 (* 32 k)) n)) (<= 0 (select idc k)))))
           (= (bytes.beIntFrom (keccakb.hash256 (pack.insBytes start pre post idc) n) 0 32)
              (pack.beval (keccak.digest (pack.insBits start pre post idc) (* 8 n) 1) 256)))
       :pattern ((keccakb.hash256 (pack.insBytes start pre post idc) n))))
  :lemmas (keccakb_def beval_bytes32 keccak_ext insPack_link insBits_sel))

; the deletion packings agree on every bit of the message
(lemma delPack_link
  (forall ((dix (Array Int Int)) (pre Int) (post Int) (b Int) (t Int))
    (=> (and (<= 0 t) (< t (+ (* 32 b) 512)) (<= 0 b) (<= 0 pre) (<= 0 post) (forall ((k Int)) (=> (and (<= 0 k) (< k b)) (<= 0 (select dix k)))))
        (= (select (link.bits8 (pack.delBytes dix pre post b)) t) (pack.delBit dix pre post b t))))
  :use ((delPack_link_idx dix pre post b (div t 32) (mod t 32))
        (delPack_link_pre dix pre post b (- t (* 32 b)))
        (delPack_link_post dix pre post b (- t (+ (* 32 b) 256)))))
(lemma link_del
  (forall ((dix (Array Int Int)) (pre Int) (post Int) (b Int) (n Int))
    (! (=> (and (<= 0 b) (= n (+ (* 4 b) 64)) (<= 0 pre) (<= 0 post) (forall ((k Int)) (=> (and (<= 0 k) (< k b)) (<= 0 (select dix k)))))
           (= (bytes.beIntFrom (keccakb.hash256 (pack.delBytes dix pre post b) n) 0 32)
              (pack.beval (keccak.digest (pack.delBits dix pre post b) (* 8 n) 1) 256)))
       :pattern ((keccakb.hash256 (pack.delBytes dix pre post b) n))))
  :lemmas (keccakb_def beval_bytes32 keccak_ext delPack_link delBits_sel))
