; link.smt2 — towards linking the byte-level packing specification (C08) with the bit-level one (C03): the two packings
; of the insertion batch agree bit for bit (bits LSB-first inside bytes, bytes big-endian). The deletion packing, the
; hash and the final recomposition are linked by reference vectors only (thorough tier, DESIGN.md 13.4); no contract
; depends on this file.

(lemma bit_div2 (forall ((v Int) (k Int)) (=> (>= k 1) (= (bits.bit v k) (bits.bit (div v 2) (- k 1))))) :reveal (bits.bit))
; shifting a byte out moves every bit down by eight
(lemma bit_div256
  (forall ((v Int) (k Int)) (=> (and (<= 0 v) (<= 0 k)) (= (bits.bit (div v 256) k) (bits.bit v (+ k 8)))))
  :induct k :inst ((div v 2) (- k 1))
  :unfold ((bits.bit (div v 256) k) (bits.bit v (+ k 8)) (bits.bit v 8) (bits.bit (div v 2) 7) (bits.bit (div (div v 2) 2) 6)
           (bits.bit (div (div (div v 2) 2) 2) 5) (bits.bit (div (div (div (div v 2) 2) 2) 2) 4)
           (bits.bit (div (div (div (div (div v 2) 2) 2) 2) 2) 3) (bits.bit (div (div (div (div (div (div v 2) 2) 2) 2) 2) 2) 2)
           (bits.bit (div (div (div (div (div (div (div v 2) 2) 2) 2) 2) 2) 2) 1)
           (bits.bit (div (div (div (div (div (div (div (div v 2) 2) 2) 2) 2) 2) 2) 2) 0)))
; the low byte carries the low eight bits
(lemma bit_mod256
  (forall ((v Int)) (=> (<= 0 v)
     (and (= (bits.bit (mod v 256) 0) (bits.bit v 0)) (= (bits.bit (mod v 256) 1) (bits.bit v 1)) (= (bits.bit (mod v 256) 2) (bits.bit v 2))
          (= (bits.bit (mod v 256) 3) (bits.bit v 3)) (= (bits.bit (mod v 256) 4) (bits.bit v 4)) (= (bits.bit (mod v 256) 5) (bits.bit v 5))
          (= (bits.bit (mod v 256) 6) (bits.bit v 6)) (= (bits.bit (mod v 256) 7) (bits.bit v 7)))))
  :reveal (bits.bit))

; bit z of byte j (0 = most significant) of the w-byte big-endian form of v is bit 8(w-1-j)+z of v
(lemma beByte_bit
  (forall ((v Int) (w Int) (j Int) (z Int))
    (=> (and (<= 0 v) (<= 0 j) (< j w) (<= 0 z) (< z 8))
        (= (bits.bit (bytes.beByte v w j) z) (bits.bit v (+ (* 8 (- (- w 1) j)) z)))))
  :induct w :inst ((div v 256) (- w 1) j z)
  :unfold ((bytes.beByte v w j)) :lemmas (bit_div256 bit_mod256))

; the LSB-first bit string of a byte string
(declare-fun link.bits8 ((Array Int Int)) (Array Int Int))
(axiom bits8_sel
  (forall ((a (Array Int Int)) (t Int))
    (! (= (select (link.bits8 a) t) (bits.bit (select a (div t 8)) (mod t 8))) :pattern ((select (link.bits8 a) t)))))

; the two packings of the insertion batch agree bit for bit
(lemma insPack_link
  (forall ((start Int) (pre Int) (post Int) (idc (Array Int Int)) (t Int))
    (=> (and (<= 0 t) (<= 0 start) (<= 0 pre) (<= 0 post) (forall ((k Int)) (<= 0 (select idc k))))
        (= (select (link.bits8 (pack.insBytes start pre post idc)) t) (pack.insBit start pre post idc t))))
  :lemmas (bits8_sel insBytes_sel beByte_bit))
