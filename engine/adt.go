package main

import (
	"fmt"
	"go/ast"
	"go/types"
)

// Heap nodes as datatype values.
//
// A repository interface type declared `adt T Sort nil` is modelled by an SMT datatype: its values are immutable.
// `box S` says which datatype value a pointer to struct S denotes once it is stored in such an interface
// (`term`), and which invariant of the struct's fields that conversion must establish (`invariant`).
// Soundness rests on immutability after boxing: storing the address freezes the struct's cell (any later store
// through it fails an `immutable` obligation), and a method with receiver *S starts from an arbitrary datatype
// value of that constructor whose fields are the selectors, plus the invariant.

func namedStructOf(t types.Type) *types.Named {
	if p, ok := t.(*types.Pointer); ok {
		t = p.Elem()
	}
	if n, ok := t.(*types.Named); ok {
		if _, isS := n.Underlying().(*types.Struct); isS {
			return n
		}
	}
	return nil
}

func boxDeclOfType(t types.Type) *boxDecl {
	if n := namedStructOf(t); n != nil {
		return boxOf[qualName(n)]
	}
	return nil
}

// boxEnv evaluates contract expressions with `self` bound to the struct value.
func (ex *Exec) boxEnv(st *State, sv Val) *CEnv {
	ce := ex.cenv(st, ex.fi.Body.Lbrace+1)
	base := ce.lookup
	ce.lookup = func(name string) (Val, bool) {
		if name == "self" {
			return sv, true
		}
		return base(name)
	}
	return ce
}

// boxTerm: the datatype value denoted by the struct value sv.
func (ex *Exec) boxTerm(st *State, sv Val, d *boxDecl) *Term {
	if d.Term == nil {
		panic(fmt.Errorf("%s:%d: box %s has no term clause", d.File, d.Line, d.Struct))
	}
	return ex.boxEnv(st, sv).evalTerm(d.Term)
}

// box converts a pointer to a boxed struct into the interface value; the invariant becomes an obligation and the
// struct is frozen.
func (ex *Exec) box(st *State, r *RefV, d *boxDecl, to *Kind, node ast.Node) Val {
	a := adtOf[to.Name]
	if r.Nil {
		return &ObjV{K: to, ID: App(a.Nil, a.Sort), Ghost: map[string]Val{}}
	}
	if n, ok := ex.selfNode[r.Cell]; ok && len(r.Path) == 0 {
		// the receiver itself: already a datatype value
		return &ObjV{K: to, ID: n, Ghost: map[string]Val{}}
	}
	sv := ex.load(st, r, node)
	ce := ex.boxEnv(st, sv)
	for i, inv := range d.Inv {
		g := ce.evalBool(inv.Expr)
		ex.oblige(st, "box-invariant", ex.site(fmt.Sprintf("box:%s/invariant#%d", shortName(d.Struct), i+1)), g, node)
		ex.obls[len(ex.obls)-1].Note = inv.Text
		st.assume(g)
	}
	t := ex.boxTerm(st, sv, d)
	if len(r.Path) == 0 {
		st.freeze(r.Cell)
	}
	return &ObjV{K: to, ID: t, Ghost: map[string]Val{}}
}

// unboxReceiver: a method whose receiver is a pointer to a boxed struct runs on an arbitrary datatype value of the
// struct's constructor; fields named in the term are the selectors of that value, the invariant is assumed.
func (ex *Exec) unboxReceiver(st *State, recv *types.Var) {
	d := boxDeclOfType(recv.Type())
	if d == nil || d.Term == nil || d.Term.K != "call" {
		return
	}
	r, ok := st.store[ex.cellOf(recv)].(*RefV)
	if !ok || r.Cell == nil {
		return
	}
	sv, ok := st.store[r.Cell].(*StructV)
	if !ok {
		return
	}
	ctor := d.Term.A[0].String()
	cf := ex.prog.Lib.Funs[ctor]
	sels := ex.prog.Lib.CtorSels[ctor]
	if cf == nil || !cf.Builtin || len(sels) != len(d.Term.A)-1 {
		panic(fmt.Errorf("%s:%d: box term of %s must be a datatype constructor applied to self.<field> arguments", d.File, d.Line, d.Struct))
	}
	n := Fresh(recv.Name()+".node", cf.Res)
	st.assume(App("(_ is "+ctor+")", SBool, n))
	nf := make(map[string]Val, len(sv.F))
	for k, v := range sv.F {
		nf[k] = v
	}
	for i, a := range d.Term.A[1:] {
		if a.K != "sel" || a.A[0].K != "ident" || a.A[0].S != "self" {
			panic(fmt.Errorf("%s:%d: box term argument %s is not self.<field>", d.File, d.Line, a.String()))
		}
		t := App(sels[i], cf.ArgS[i], n)
		var fk *Kind
		for _, fd := range sv.K.Fields {
			if fd.Name == a.S {
				fk = fd.K
			}
		}
		if fk == nil {
			panic(fmt.Errorf("%s:%d: %s has no field %s", d.File, d.Line, d.Struct, a.S))
		}
		if fk.K == "obj" {
			nf[a.S] = &ObjV{K: fk, ID: t, Ghost: map[string]Val{}}
		} else {
			nf[a.S] = SV{T: t}
			st.assume(ex.rangeInv(fk, t))
		}
	}
	nsv := &StructV{K: sv.K, F: nf}
	st.store[r.Cell] = nsv
	if ex.selfNode == nil {
		ex.selfNode = map[*Cell]*Term{}
	}
	ex.selfNode[r.Cell] = n
	ce := ex.boxEnv(st, nsv)
	for _, inv := range d.Inv {
		st.assume(ce.evalBool(inv.Expr))
	}
}

// adtArg: a pointer to a boxed struct passed where a spec function expects the datatype.
func (ex *Exec) adtArg(st *State, v Val, want *Sort) (*Term, bool) {
	if ex.prog.Lib.Datatypes == nil {
		return nil, false
	}
	if _, isDT := ex.prog.Lib.Datatypes[want.Name]; !isDT {
		return nil, false
	}
	switch x := v.(type) {
	case *ObjV:
		if x.ID.Sort == want {
			return x.ID, true
		}
	case *RefV:
		if x.Nil || x.Cell == nil {
			return nil, false
		}
		if n, ok := ex.selfNode[x.Cell]; ok && len(x.Path) == 0 {
			return n, true
		}
		if sv, ok := st.store[x.Cell].(*StructV); ok && len(x.Path) == 0 {
			if d := boxOf[sv.K.Name]; d != nil {
				return ex.boxTerm(st, sv, d), true
			}
		}
	case *StructV:
		if d := boxOf[x.K.Name]; d != nil {
			return ex.boxTerm(st, x, d), true
		}
	}
	return nil, false
}


// unboxValue: the struct behind a datatype value known (under cond) to be of the struct's constructor; used for type
// assertions x.(*S) on adt interfaces.
func (ex *Exec) unboxValue(st *State, id *Term, d *boxDecl, named *types.Named, cond *Term) (*RefV, *Term) {
	if d.Term == nil || d.Term.K != "call" {
		panic(fmt.Errorf("%s:%d: box %s has no constructor term", d.File, d.Line, d.Struct))
	}
	ctor := d.Term.A[0].String()
	cf := ex.prog.Lib.Funs[ctor]
	sels := ex.prog.Lib.CtorSels[ctor]
	tester := App("(_ is "+ctor+")", SBool, id)
	k := kindOf(named)
	sv := ex.freshVal(st, k, "unboxed").(*StructV)
	nf := make(map[string]Val, len(sv.F))
	for kk, v := range sv.F {
		nf[kk] = v
	}
	for i, a := range d.Term.A[1:] {
		t := App(sels[i], cf.ArgS[i], id)
		for _, fd := range k.Fields {
			if fd.Name == a.S {
				if fd.K.K == "obj" {
					nf[a.S] = &ObjV{K: fd.K, ID: t, Ghost: map[string]Val{}}
				} else {
					nf[a.S] = SV{T: t}
				}
			}
		}
	}
	nsv := &StructV{K: k, F: nf}
	c := newCell("unboxed")
	st.store[c] = nsv
	st.freeze(c)
	if ex.selfNode == nil {
		ex.selfNode = map[*Cell]*Term{}
	}
	ex.selfNode[c] = id
	ce := ex.boxEnv(st, nsv)
	for _, inv := range d.Inv {
		st.assume(Imp(And(cond, tester), ce.evalBool(inv.Expr)))
	}
	return &RefV{Cell: c}, tester
}
