package main

import (
	"go/types"
	"encoding/json"
	"flag"
	"fmt"
	"os"
	"path/filepath"
	"sort"
	"strconv"
	"strings"
	"time"
)

var verifDir = "/verif"

func main() {
	if len(os.Args) < 2 {
		fmt.Fprintln(os.Stderr, "usage: govc check <Cnn> [--tier quick|thorough] | lemmas | func <key>")
		os.Exit(2)
	}
	cmd := os.Args[1]
	fs := flag.NewFlagSet(cmd, flag.ExitOnError)
	tier := fs.String("tier", "quick", "quick or thorough")
	repo := fs.String("repo", "/repo", "repository")
	verbose := fs.Bool("v", false, "verbose")
	only := fs.String("only", "", "only obligations whose name contains this")
	timeout := fs.Int("timeout", 0, "per-obligation timeout (s)")
	var rest []string
	args := os.Args[2:]
	for len(args) > 0 && !strings.HasPrefix(args[0], "-") {
		rest = append(rest, args[0])
		args = args[1:]
	}
	fs.Parse(args)
	if t := os.Getenv("VERIF_TIER"); t != "" && *tier == "quick" {
		*tier = t
	}
	if d := os.Getenv("VERIF_DIR"); d != "" {
		verifDir = d
	}
	workDir = filepath.Join(verifDir, "work")
	switch cmd {
	case "check":
		if len(rest) != 1 {
			fmt.Fprintln(os.Stderr, "check needs a property id")
			os.Exit(2)
		}
		// private scratch directory per run (concurrent checks must not share SMT files)
		workDir = filepath.Join(verifDir, "work", fmt.Sprintf("%s-%d", rest[0], os.Getpid()))
		rc := runCheck(rest[0], *tier, *repo, *verbose, *only, *timeout)
		// the scratch directory is always removed (the SMT files of failed obligations are copied next to their replay
		// files first); VERIF_KEEP_WORK=1 keeps it for debugging
		if os.Getenv("VERIF_KEEP_WORK") == "" {
			os.RemoveAll(workDir)
		}
		os.Exit(rc)
	case "funcs":
		// every unit of the repository (function, method, closure) and whether it is under contract
		prog, err := LoadProgram(*repo)
		if err != nil {
			fmt.Fprintln(os.Stderr, err)
			os.Exit(2)
		}
		var ks []string
		for k := range prog.Funcs {
			ks = append(ks, k)
		}
		sort.Strings(ks)
		for _, k := range ks {
			mark := "-"
			if ct := prog.Contracts.ByKey[k]; ct != nil {
				mark = strings.Join(ct.Props, ",")
				if ct.Trusted {
					mark += " (trusted)"
				}
			}
			fmt.Printf("%-70s %s\n", shortName(k), mark)
		}
		os.Exit(0)
	case "harness":
		// runs the replay harnesses of a property against the working tree (diagnostic; `check` runs them itself on a
		// failed obligation and in the thorough tier)
		if len(rest) != 1 || len(replays[rest[0]]) == 0 {
			fmt.Fprintln(os.Stderr, "harness needs a property id that has a replay harness")
			os.Exit(2)
		}
		workDir = filepath.Join(verifDir, "work", fmt.Sprintf("harness-%s-%d", rest[0], os.Getpid()))
		rc := 0
		for _, rs := range replays[rest[0]] {
			failing, out, ran := runReplaySpec(*repo, rest[0], rs, &Obligation{Name: "harness-sweep"})
			if *verbose || !ran {
				fmt.Println(out)
			}
			if failing != "" {
				fmt.Printf("%s: REPLAY-FAIL %s\n", rs.Test, failing)
				rc = 1
			} else if ran {
				fmt.Printf("%s: no failure\n", rs.Test)
			} else {
				rc = 2
			}
		}
		os.RemoveAll(workDir)
		os.Exit(rc)
	case "lemmas":
		workDir = filepath.Join(verifDir, "work", fmt.Sprintf("lemmas-%d", os.Getpid()))
		rc := runLemmas(*verbose, *only, *timeout)
		if os.Getenv("VERIF_KEEP_WORK") == "" {
			os.RemoveAll(workDir)
		}
		os.Exit(rc)
	default:
		fmt.Fprintln(os.Stderr, "unknown command", cmd)
		os.Exit(2)
	}
}

func loadLib() (*SpecLib, error) {
	lib := NewSpecLib()
	if err := lib.LoadDir(filepath.Join(verifDir, "spec")); err != nil {
		return nil, err
	}
	return lib, nil
}

// lemmaObligation builds the proof obligation of a lemma.
func (lib *SpecLib) lemmaObligation(l *Lemma) (*Obligation, error) {
	o := &Obligation{Name: "lemma/" + l.Name, Func: "spec:" + l.File, Kind: "lemma", Reveal: map[string]bool{}, Lemmas: l.Lemmas, Timeout: l.Timeout}
	for _, r := range l.Reveal {
		if lib.Funs[r] == nil {
			return nil, fmt.Errorf("lemma %s reveals unknown function %s", l.Name, r)
		}
		o.Reveal[r] = true
	}
	st := l.Stmt
	if st.Op != "forall" {
		o.Goal = st
		return o, nil
	}
	sk := map[*Term]*Term{}
	sc := &sxScope{vars: map[string]*Term{}}
	for _, b := range st.Bound {
		base := b.Name
		if i := strings.Index(base, "!q"); i >= 0 {
			base = base[:i]
		}
		c := Var("sk."+base, b.Sort)
		sk[b] = c
		sc.vars[base] = c
	}
	body := st.Args[0]
	o.Goal = Subst(body, sk)
	if l.Measure != nil {
		mSk, err := lib.TermFromSX(l.Measure, sc)
		if err != nil {
			return nil, fmt.Errorf("lemma %s measure: %v", l.Name, err)
		}
		// IH: forall x'. 0 <= m(x') < m(sk) => body(x')
		ren := map[*Term]*Term{}
		sc2 := &sxScope{vars: map[string]*Term{}}
		var nb []*Term
		for _, b := range st.Bound {
			base := b.Name
			if i := strings.Index(base, "!q"); i >= 0 {
				base = base[:i]
			}
			nv := Var(fmt.Sprintf("%s!q%d", base, nextQ()), b.Sort)
			ren[b] = nv
			sc2.vars[base] = nv
			nb = append(nb, nv)
		}
		mB, err := lib.TermFromSX(l.Measure, sc2)
		if err != nil {
			return nil, err
		}
		ih := Quant("forall", nb, Imp(And(Le(Zero, mB), Lt(mB, mSk)), Subst(body, ren)))
		o.Assumes = append(o.Assumes, ih)
		// explicit instances of the IH
		for _, inst := range l.Inst {
			m := map[*Term]*Term{}
			for i, b := range st.Bound {
				if i < len(inst.List) {
					t, err := lib.TermFromSX(inst.List[i], sc)
					if err != nil {
						return nil, fmt.Errorf("lemma %s inst: %v", l.Name, err)
					}
					m[b] = t
				}
			}
			var ms []*Term
			// measure at the instance
			sc3 := &sxScope{vars: map[string]*Term{}}
			for i, b := range st.Bound {
				base := b.Name
				if j := strings.Index(base, "!q"); j >= 0 {
					base = base[:j]
				}
				_ = i
				sc3.vars[base] = m[b]
			}
			mI, err := lib.TermFromSX(l.Measure, sc3)
			if err != nil {
				return nil, err
			}
			ms = append(ms, Imp(And(Le(Zero, mI), Lt(mI, mSk)), Subst(body, m)))
			o.Assumes = append(o.Assumes, ms...)
		}
	}
	for _, u := range l.Use {
		if !u.IsL || len(u.List) < 1 {
			return nil, fmt.Errorf("lemma %s: bad :use entry", l.Name)
		}
		other := lib.Lemmas[u.List[0].Atom]
		if other == nil || other.Stmt.Op != "forall" {
			return nil, fmt.Errorf("lemma %s: :use of unknown or unquantified lemma %s", l.Name, u.List[0].Atom)
		}
		if len(u.List)-1 != len(other.Stmt.Bound) {
			return nil, fmt.Errorf("lemma %s: :use %s needs %d terms", l.Name, other.Name, len(other.Stmt.Bound))
		}
		m := map[*Term]*Term{}
		for i, b := range other.Stmt.Bound {
			t, err := lib.TermFromSX(u.List[i+1], sc)
			if err != nil {
				return nil, fmt.Errorf("lemma %s :use: %v", l.Name, err)
			}
			m[b] = t
		}
		o.Assumes = append(o.Assumes, Subst(other.Stmt.Args[0], m))
	}
	for _, u := range l.Unfold {
		t, err := lib.TermFromSX(u, sc)
		if err != nil {
			return nil, fmt.Errorf("lemma %s unfold: %v", l.Name, err)
		}
		f := lib.Funs[t.Op]
		if f == nil || f.Body == nil {
			return nil, fmt.Errorf("lemma %s unfold: %s is not a defined function", l.Name, t.Op)
		}
		o.Assumes = append(o.Assumes, Eq(t, f.Instantiate(t.Args)))
	}
	return o, nil
}

// lemmaClosure returns the given lemmas plus everything they depend on.
func (lib *SpecLib) lemmaClosure(names []string) ([]string, error) {
	seen := map[string]bool{}
	var out []string
	var visit func(n string) error
	visit = func(n string) error {
		if seen[n] {
			return nil
		}
		seen[n] = true
		l := lib.Lemmas[n]
		if l == nil {
			return fmt.Errorf("unknown lemma %s", n)
		}
		for _, d := range l.Lemmas {
			if err := visit(d); err != nil {
				return err
			}
		}
		out = append(out, n)
		return nil
	}
	for _, n := range names {
		if err := visit(n); err != nil {
			return nil, err
		}
	}
	return out, nil
}

func runLemmas(verbose bool, only string, timeout int) int {
	lib, err := loadLib()
	if err != nil {
		fmt.Fprintln(os.Stderr, "spec:", err)
		return 2
	}
	var obls []*Obligation
	for _, n := range lib.Order {
		l := lib.Lemmas[n]
		if l.Axiom || (only != "" && !strings.Contains(n, only)) {
			continue
		}
		o, err := lib.lemmaObligation(l)
		if err != nil {
			fmt.Fprintln(os.Stderr, err)
			return 2
		}
		obls = append(obls, o)
	}
	if timeout == 0 {
		timeout = 10
	}
	// consistency canaries: the hypotheses of a lemma's proof (induction hypothesis, unfoldings, the lemmas and axioms it
	// uses) must not prove false
	var cans []*Obligation
	for _, o := range obls {
		cans = append(cans, &Obligation{Name: o.Name + "/consistent", Func: o.Func, Kind: "canary", Assumes: o.Assumes, Goal: False, Canary: true,
			Reveal: o.Reveal, Lemmas: o.Lemmas})
	}
	if only == "" {
		// the whole library at once: all axioms and all lemma statements together must not prove false
		var all []string
		for _, n := range lib.Order {
			all = append(all, n)
		}
		g := &Obligation{Name: "lemma/*/library-consistent", Func: "spec", Kind: "canary", Goal: False, Canary: true, Reveal: map[string]bool{}, Lemmas: all}
		cans = append(cans, g)
	}
	lib.SolveAll(append(append([]*Obligation{}, obls...), cans...), timeout, 5, false)
	bad := 0
	for _, c := range cans {
		if c.Res.Status == "unsat" {
			fmt.Printf("VACUOUS  %-50s the hypotheses of this lemma's proof are contradictory\n", c.Name)
			bad++
		}
	}
	for _, o := range obls {
		fmt.Printf("%-8s %-50s %s %dms\n", o.Res.Status, o.Name, o.Res.Solver, o.Res.Ms)
		if o.Res.Status != "unsat" {
			bad++
			if verbose {
				fmt.Println(o.Res.Output)
			}
		}
	}
	if bad > 0 {
		return 1
	}
	return 0
}

type oblReport struct {
	Name     string   `json:"name"`
	Kind     string   `json:"kind"`
	Func     string   `json:"func"`
	Status   string   `json:"status"`
	Solver   string   `json:"solver,omitempty"`
	Ms       int64    `json:"ms"`
	Confirm  []string `json:"confirmed_by,omitempty"`
	Pos      string   `json:"pos,omitempty"`
	Note     string   `json:"note,omitempty"`
}

func runCheck(prop, tier, repo string, verbose bool, only string, timeout int) int {
	t0 := time.Now()
	seed, _ := strconv.Atoi(os.Getenv("VERIF_SEED"))
	lib, err := loadLib()
	if err != nil {
		fmt.Fprintln(os.Stderr, "spec:", err)
		return 2
	}
	prog, err := LoadProgram(repo)
	if err != nil {
		fmt.Fprintln(os.Stderr, "load:", err)
		return 2
	}
	prog.Lib = lib
	if err := prog.Contracts.LoadAssumed(filepath.Join(verifDir, "assumed")); err != nil {
		fmt.Fprintln(os.Stderr, "assumed:", err)
		return 2
	}
	tLoad := time.Since(t0)
	var obls []*Obligation
	var funcs []string
	notes := map[string]bool{}
	lemmaUse := map[string]bool{}
	var keys []string
	for _, k := range prog.Contracts.Keys {
		keys = append(keys, k)
	}
	sort.Strings(keys)
	assumedUsed := map[string]bool{}
	for _, k := range keys {
		ct := prog.Contracts.ByKey[k]
		if ct.Extern && ct.Iface {
			for _, p := range ct.Props {
				if p == prop {
					obls = append(obls, implementsObligations(prog, ct)...)
				}
			}
		}
		if ct.Extern {
			continue
		}
		has := false
		for _, p := range ct.Props {
			if p == prop {
				has = true
			}
		}
		if !has {
			continue
		}
		if ct.Trusted {
			notes["contract of "+ct.Key+" is trusted (body not verified)"] = true
			continue
		}
		if ct.TypeFact {
			obls = append(obls, typeFactObligations(prog, ct)...)
			funcs = append(funcs, k)
			continue
		}
		fi := prog.Funcs[k]
		if fi == nil {
			f := false
			obls = append(obls, &Obligation{Name: shortName(k) + "/contract-target", Func: k, Kind: "contract-target", Goal: False, Static: &f,
				Note: "contract refers to a function that does not exist in the working tree"})
			continue
		}
		funcs = append(funcs, k)
		for _, w := range ct.When {
			notes["domain restriction of "+ct.Key+" (entry point called by a library; not checked at any call site): "+w] = true
		}
		if o := compileCoversDefine(prog, ct, k); o != nil {
			obls = append(obls, o...)
		}
		for _, u := range ct.Unreach {
			obls = append(obls, unreachableObligation(prog, fi, ct, u))
		}
		modes := ct.Modes
		if len(modes) == 0 {
			hasAPI := false
			for i := 0; i < fi.Sig.Params().Len(); i++ {
				if strings.HasSuffix(fi.Sig.Params().At(i).Type().String(), "gnark/frontend.API") {
					hasAPI = true
				}
			}
			if hasAPI {
				modes = []string{"A", "H"}
			} else {
				modes = []string{""}
			}
		}
		type runSpec struct {
			mode string
			ci   int
		}
		var runs []runSpec
		for _, m := range modes {
			if len(ct.Cases) == 0 {
				runs = append(runs, runSpec{m, 0})
				continue
			}
			runs = append(runs, runSpec{m, -1})
			for ci := range ct.Cases {
				runs = append(runs, runSpec{m, ci + 1})
			}
		}
		for _, rs := range runs {
			m := rs.mode
			ex := newExec(prog, fi, ct, m)
			ex.caseIdx = rs.ci
			if rs.ci > 0 {
				ex.fnName += fmt.Sprintf("{case%d}", rs.ci)
			}
			if err := ex.run(); err != nil {
				f := false
				obls = append(obls, &Obligation{Name: ex.fnName + "/in-subset" + ex.modeSuffix(), Func: k, Kind: "in-subset", Goal: False, Static: &f, Note: err.Error(), Prop: ct.Props})
			}
			obls = append(obls, ex.obls...)
			for n := range ex.notes {
				notes[n] = true
			}
			for _, o := range ex.obls {
				for _, l := range o.Lemmas {
					lemmaUse[l] = true
				}
			}
		}
	}
	// lemma obligations
	var lnames []string
	for l := range lemmaUse {
		lnames = append(lnames, l)
	}
	sort.Strings(lnames)
	closure, err := lib.lemmaClosure(lnames)
	if err != nil {
		fmt.Fprintln(os.Stderr, err)
		return 2
	}
	var axioms []string
	for _, n := range closure {
		l := lib.Lemmas[n]
		if l.Axiom {
			axioms = append(axioms, n)
			continue
		}
		o, err := lib.lemmaObligation(l)
		if err != nil {
			fmt.Fprintln(os.Stderr, err)
			return 2
		}
		obls = append(obls, o)
	}
	// obligation names must be unique (they name SMT files and known findings)
	seenNames := map[string]int{}
	for _, o := range obls {
		seenNames[o.Name]++
		if n := seenNames[o.Name]; n > 1 {
			o.Name = fmt.Sprintf("%s~%d", o.Name, n)
		}
	}
	if only != "" {
		var f []*Obligation
		for _, o := range obls {
			if strings.Contains(o.Name, only) {
				f = append(f, o)
			}
		}
		obls = f
	}
	if tier == "thorough" && (prop == "C04" || prop == "C03") && only == "" {
		vo, msg := keccakVectorObligations(lib, repo)
		if msg != "" {
			notes["spec vectors: "+msg] = true
		}
		for _, o := range vo {
			o.Prop = []string{prop}
		}
		obls = append(obls, vo...)
	}
	if tier == "thorough" && (prop == "C08" || prop == "C03") && only == "" {
		vo, msg := inputHashLinkObligations(lib, repo)
		if msg != "" {
			notes["spec vectors: "+msg] = true
		}
		for _, o := range vo {
			o.Prop = []string{prop}
		}
		obls = append(obls, vo...)
	}
	if tier == "thorough" && (prop == "C05" || prop == "C18") && only == "" {
		vo, msg := poseidonVectorObligations(lib, repo)
		if msg != "" {
			notes["spec vectors: "+msg] = true
		}
		for _, o := range vo {
			o.Prop = []string{prop}
		}
		obls = append(obls, vo...)
	}
	// contradiction probes: a vacuity canary with goal `false` misses contradictions that need the goal's terms as
	// triggers, so for one invariant-preservation obligation per loop and one postcondition per return the negated
	// goal is tried as well: if both the goal and its negation follow from the assumptions, they are contradictory
	{
		picked := map[string]*Obligation{}
		var order []string
		for _, o := range obls {
			if o.Canary || o.Static != nil || o.Goal.IsTrue() || o.Goal.IsFalse() {
				continue
			}
			key := ""
			if o.Kind == "inv-step" {
				if k := strings.Index(o.Name, "/inv-step#"); k >= 0 {
					key = o.Name[:k] + "|" + o.Mode
				}
			} else if o.Kind == "post" {
				if k := strings.LastIndex(o.Name, "@ret"); k >= 0 {
					key = o.Func + "|" + o.Name[k:] + "|" + o.Mode
				}
			}
			if key == "" {
				continue
			}
			if _, ok := picked[key]; !ok {
				order = append(order, key)
			}
			if o.Kind == "inv-step" || picked[key] == nil {
				picked[key] = o // last inv-step of a loop, first postcondition of a return
			}
		}
		for _, key := range order {
			o := picked[key]
			obls = append(obls, &Obligation{Name: o.Name + "/noncontradiction", Prop: o.Prop, Func: o.Func, Kind: "canary", Mode: o.Mode,
				Assumes: o.Assumes, Goal: Not(o.Goal), Canary: true, Reveal: o.Reveal, Lemmas: o.Lemmas, Probe: true,
				Note: "probe: the negation of a discharged goal must not be provable too"})
		}
	}
	tGen := time.Since(t0) - tLoad
	to := 10
	all := false
	if tier == "thorough" {
		to = 60
		all = true
	}
	if timeout > 0 {
		to = timeout
	}
	lib.SolveAll(obls, to, 5, all)
	// report
	var reps []oblReport
	nObl, nDis, nCan, nCanBad := 0, 0, 0, 0
	nInfeasible := 0
	canGroups := map[string]bool{}
	var canOrder []string
	var failed []*Obligation
	var solverMs int64
	bySolver := map[string]int{}
	for _, o := range obls {
		r := oblReport{Name: o.Name, Kind: o.Kind, Func: o.Func, Status: o.Res.Status, Solver: o.Res.Solver, Ms: o.Res.Ms, Confirm: o.Res.Confirm, Pos: o.Pos, Note: o.Note}
		solverMs += o.Res.Ms
		if o.Canary {
			nCan++
			grp := o.Func + "|" + o.Mode + "|" + canaryGroup(o.Name)
			if k := strings.Index(o.Name, "/cover#"); k >= 0 {
				e := strings.Index(o.Name[k:], "@")
				grp = o.Func + "|" + o.Mode + "|" + o.Name[:k+e]
			}
			if strings.Contains(o.Name, "/loop#") {
				grp = o.Name
			}
			if o.Probe {
				grp = o.Name
			}
			if _, ok := canGroups[grp]; !ok {
				canGroups[grp] = false
				canOrder = append(canOrder, grp)
			}
			if o.Res.Status == "unsat" {
				r.Status = "infeasible-path"
				nInfeasible++
			} else {
				canGroups[grp] = true
				r.Status = "canary-ok(" + o.Res.Status + ")"
			}
		} else {
			nObl++
			if o.Res.Status == "unsat" {
				nDis++
				bySolver[o.Res.Solver]++
			} else {
				failed = append(failed, o)
			}
		}
		reps = append(reps, r)
		if verbose || (!o.Canary && o.Res.Status != "unsat") {
			fmt.Printf("%-10s %-70s %-12s %5dms %s\n", r.Status, o.Name, o.Res.Solver, o.Res.Ms, o.Pos)
			if !o.Canary && o.Res.Status != "unsat" && o.Note != "" {
				fmt.Printf("           note: %s\n", o.Note)
			}
		}
	}
	for _, g := range canOrder {
		if !canGroups[g] {
			nCanBad++
			fmt.Printf("VACUITY: %s — no satisfiable path: the assumptions are contradictory\n", g)
		}
	}
	wall := time.Since(t0).Seconds()
	fmt.Printf("property %s: %d functions, %d obligations, %d discharged, %d canaries (%d vacuous); load %.1fs gen %.1fs total %.1fs\n",
		prop, len(funcs), nObl, nDis, nCan, nCanBad, tLoad.Seconds(), tGen.Seconds(), wall)
	// known findings
	kf := loadKnownFindings()
	exit := 0
	os.MkdirAll(filepath.Join(verifDir, "replays"), 0o755)
	viol := 0
	replayCache := map[string][2]string{}
	for _, o := range failed {
		if f := kf.match(prop, o.Name); f != nil {
			fmt.Printf("KNOWN-FINDING: property=%s %s\n", prop, f.What)
			continue
		}
		viol++
		if strings.HasPrefix(o.Res.Output, "not attempted:") {
			continue // reported through its sibling pieces
		}
		rp := filepath.Join(verifDir, "replays", prop+"-"+sanitize(o.Name)+".json")
		smtCopy := ""
		if o.Res.File != "" {
			if b, err := os.ReadFile(o.Res.File); err == nil && len(b) < 4<<20 {
				smtCopy = strings.TrimSuffix(rp, ".json") + ".smt2"
				os.WriteFile(smtCopy, b, 0o644)
			}
		}
		rep := map[string]interface{}{"property": prop, "obligation": o.Name, "kind": o.Kind, "function": o.Func, "position": o.Pos,
			"status": o.Res.Status, "solver_output": o.Res.Output, "model": o.Res.Model, "smt_file": smtCopy, "note": o.Note,
			"failing_input": nil}
		// replay against the real code (one run per function under contract)
		var failing, out string
		if c, ok := replayCache[o.Func]; ok {
			failing, out = c[0], c[1]
		} else if os.Getenv("VERIF_NO_REPLAY") == "" {
			var ran bool
			failing, out, ran = runReplay(repo, prop, o)
			if ran {
				replayCache[o.Func] = [2]string{failing, out}
			}
		}
		suffix := " no-failing-input-found"
		if failing != "" {
			var fi interface{}
			if json.Unmarshal([]byte(failing), &fi) == nil {
				rep["failing_input"] = fi
			} else {
				rep["failing_input"] = failing
			}
			suffix = ""
		}
		rep["replay_output"] = trunc(out, 4000)
		b, _ := json.MarshalIndent(rep, "", " ")
		os.WriteFile(rp, b, 0o644)
		fmt.Printf("VIOLATION property=%s replay=%s obligation=%s%s\n", prop, rp, o.Name, suffix)
		exit = 1
	}
	if nCanBad > 0 || nObl == 0 {
		if nObl == 0 {
			fmt.Println("MACHINERY FAILURE: zero obligations generated")
		}
		if exit == 0 {
			exit = 2
		}
	}
	// thorough tier: the replay harness of the property (real functions against an independent reference on the
	// harness's sweep of inputs) is run even when every obligation was discharged
	harness := ""
	if tier == "thorough" && viol == 0 && len(replays[prop]) > 0 && os.Getenv("VERIF_NO_REPLAY") == "" {
		replayRace = true
		dummy := &Obligation{Name: "harness-sweep", Func: ""}
		failing, out, ran := runReplay(repo, prop, dummy)
		if ran && failing != "" {
			viol++
			exit = 1
			rp := filepath.Join(verifDir, "replays", prop+"-harness-sweep.json")
			b, _ := json.MarshalIndent(map[string]interface{}{"property": prop, "obligation": "harness-sweep", "failing_input": json.RawMessage(failing), "replay_output": trunc(out, 4000)}, "", " ")
			os.WriteFile(rp, b, 0o644)
			fmt.Printf("VIOLATION property=%s replay=%s obligation=harness-sweep\n", prop, rp)
		} else if ran {
			harness = "bounded replay harness sweep on the unchanged code (DESIGN 13.11; never counted as proof): no failure (" + replays[prop][0].Test + ")"
		} else {
			harness = "replay harness could not be run: " + trunc(out, 200)
		}
		fmt.Println(harness)
	}
	// evidence
	var trusted []string
	trusted = append(trusted, "govc VC generator (engine/*.go): symbolic execution of the typed Go AST, value model of DESIGN.md §3")
	trusted = append(trusted, "SMT solvers z3 4.8.12, z3 5.1.0, cvc5 1.0.3")
	for _, k := range keys {
		ct := prog.Contracts.ByKey[k]
		if ct.Extern {
			assumedUsed[k] = true
		}
	}
	assumptions := []string{}
	for n := range notes {
		assumptions = append(assumptions, n)
	}
	for _, a := range axioms {
		assumptions = append(assumptions, "spec axiom (unproved): "+a)
	}
	nOv := 0
	for _, o := range obls {
		if o.Kind == "overflow" {
			nOv++
		}
	}
	nTerm := 0
	for _, o := range obls {
		if o.Kind == "termination" || o.Kind == "decreases" {
			nTerm++
		}
	}
	assumptions = append(assumptions, fmt.Sprintf("termination: proved for the loops of the functions under contract (%d `termination`/`decreases` obligations in this run: literal bounds by unrolling, range loops, a variant read off the loop condition or a `decreases` clause) and for recursion where a function-level `decreases` is written; loops listed as 'termination ... not proved', library calls, channel waits and goroutines are not covered", nTerm))
	assumptions = append(assumptions,
		fmt.Sprintf("integer model: mathematical integers; unsigned +,-,*,<< and all integer conversions wrap as in Go; every signed +,-,*,<<,++,--,unary - carries an `overflow` obligation (%d in this run) unless its function is listed with `opt no-overflow`; int is 64 bits wide (amd64/arm64)", nOv),
		"slice lengths of parameters and call results are at most 2^48 (Go's maxAlloc on 64-bit platforms; element types of non-zero size)")
	sort.Strings(assumptions)
	samples := []interface{}{}
	for i, o := range obls {
		if !o.Canary && o.Static == nil && len(samples) < 3 {
			samples = append(samples, map[string]string{"obligation": o.Name, "goal": trunc(o.Goal.String(), 600), "assumptions": fmt.Sprint(len(o.Assumes))})
		}
		_ = i
	}
	ev := map[string]interface{}{
		"property_id": prop, "tier": tier, "seed": seed, "level": levelOf(prop), "wall_s": wall, "violations": viol,
		"coverage": map[string]interface{}{
			"obligations": nObl, "discharged": nDis,
			"checker_cmd":              fmt.Sprintf("/verif/check %s --tier %s", prop, tier),
			"trusted_base":             trusted,
			"functions_under_contract": funcs,
			"per_obligation":           reps,
			"by_solver":                bySolver,
			"solver_ms_total":          solverMs,
			"vacuity_canaries":         nCan,
			"vacuous":                  nCanBad,
			"infeasible_paths":         nInfeasible,
			"samples":                  samples,
			"harness":                  harness,
			"explanation":              "contract-based deductive verification: every obligation is generated from /repo's current source by govc and discharged by an SMT solver; see DESIGN.md",
		},
		"assumptions": assumptions,
	}
	if os.Getenv("VERIF_NO_EVIDENCE") == "" {
		os.MkdirAll(filepath.Join(verifDir, "evidence"), 0o755)
		b, _ := json.MarshalIndent(ev, "", " ")
		os.WriteFile(filepath.Join(verifDir, "evidence", prop+".json"), b, 0o644)
	}
	return exit
}

var propLevels = map[string]string{}

func levelOf(p string) string {
	if l, ok := propLevels[p]; ok {
		return l
	}
	switch p {
	case "C12", "C13", "C14", "C20":
		return "other"
	}
	return "proof"
}

type knownFinding struct {
	Kind       string `json:"kind"`
	Property   string `json:"property"`
	Obligation string `json:"obligation"`
	What       string `json:"what"`
	Commit     string `json:"commit,omitempty"`
}

type knownFindings struct{ list []knownFinding }

func loadKnownFindings() *knownFindings {
	kf := &knownFindings{}
	b, err := os.ReadFile(filepath.Join(verifDir, "known-findings.json"))
	if err != nil {
		return kf
	}
	var raw struct {
		Findings []knownFinding `json:"findings"`
	}
	json.Unmarshal(b, &raw)
	kf.list = raw.Findings
	return kf
}

func (kf *knownFindings) match(prop, obl string) *knownFinding {
	for i, f := range kf.list {
		if f.Kind == "finding" && f.Property == prop && f.Obligation == obl {
			return &kf.list[i]
		}
	}
	return nil
}

func newExec(prog *Program, fi *FuncInfo, ct *Contract, mode string) *Exec {
	ex := &Exec{prog: prog, fi: fi, info: fi.Pkg.TypesInfo, ct: ct, mode: mode, cells: map[types.Object]*Cell{}, siteOrd: map[string]int{},
		reveal: map[string]bool{}, notes: map[string]bool{}, lets: map[string]*CExpr{}, paramRoot: map[*Cell]paramRootInfo{}}
	ex.fnName = shortName(fi.Key)
	for _, l := range ct.Lets {
		ex.lets[l.Name] = l.Expr
	}
	ex.lemmas = append(ex.lemmas, ct.Lemmas...)
	for _, r := range ct.Reveal {
		ex.reveal[r] = true
	}
	if ct.Field == "generic" {
		ex.P = Var("P", SInt)
	} else {
		ex.P = BigLit(fieldP)
	}
	return ex
}

// canaryGroup: name of the function run (incl. case suffix) a return canary belongs to
func canaryGroup(name string) string {
	if i := strings.Index(name, "/canary@"); i >= 0 {
		return name[:i]
	}
	return name
}
