package main

import (
	"bytes"
	"context"
	"fmt"
	"os"
	"os/exec"
	"path/filepath"
	"strings"
	"sync"
	"time"
)

type SolveResult struct {
	Status  string // "unsat" (proved), "sat", "unknown", "timeout", "error"
	Solver  string
	Ms      int64
	Output  string
	Model   string
	File    string
	Confirm []string // solvers that also answered unsat (thorough)
}

type solverSpec struct {
	name  string
	style string
	argv  func(file string, timeoutS int) []string
}

var solvers = []solverSpec{
	{"z3-5.1.0", "z3", func(f string, t int) []string { return []string{"z3-new", fmt.Sprintf("-T:%d", t), f} }},
	{"z3-4.8.12", "z3", func(f string, t int) []string { return []string{"z3", fmt.Sprintf("-T:%d", t), f} }},
	{"cvc5-1.0.3", "cvc5", func(f string, t int) []string {
		return []string{"cvc5", fmt.Sprintf("--tlimit=%d", t*1000), f}
	}},
}

var workDir = "/verif/work"

// wallFactor: the solvers' budget is CPU time (ulimit -t), so that a loaded machine slows a check down instead of making
// obligations time out; the wall-clock limit is only a backstop, this many times larger.
const wallFactor = 12

func runOne(ctx context.Context, s solverSpec, file string, timeoutS int) (status, out string, ms int64) {
	argv := s.argv(file, timeoutS*wallFactor)
	cctx, cancel := context.WithTimeout(ctx, time.Duration(timeoutS*wallFactor+2)*time.Second)
	defer cancel()
	sh := fmt.Sprintf("ulimit -t %d; exec", timeoutS)
	for _, a := range argv {
		sh += " '" + strings.ReplaceAll(a, "'", "'\\''") + "'"
	}
	cmd := exec.CommandContext(cctx, "/bin/sh", "-c", sh)
	var buf bytes.Buffer
	cmd.Stdout = &buf
	cmd.Stderr = &buf
	t0 := time.Now()
	_ = cmd.Run()
	ms = time.Since(t0).Milliseconds()
	out = buf.String()
	first := strings.TrimSpace(strings.SplitN(out, "\n", 2)[0])
	switch first {
	case "unsat", "sat", "unknown":
		status = first
	case "timeout":
		status = "timeout"
	default:
		if cctx.Err() != nil {
			status = "timeout"
		} else if strings.Contains(out, "timeout") || strings.Contains(out, "interrupted") {
			status = "timeout"
		} else {
			status = "error"
		}
	}
	return
}

// Solve discharges an obligation: first on the cone of influence of the goal, then (if that does not succeed)
// with every assumption, and finally once more with a longer timeout (robustness under machine load).
func (lib *SpecLib) Solve(o *Obligation, timeoutS int, all bool) *SolveResult {
	o.NoSlice = false
	o.Slice = 0
	if o.Canary {
		o.Slice = 1
	}
	r := lib.solve1(o, timeoutS, all, "")
	if r.Status == "unsat" || o.Canary {
		return r
	}
	n0 := len(o.Assumes)
	if n0 != len(o.fullAssumes) {
		o.Slice = 1
		if len(coneOfInfluence(o.fullAssumes, o.Goal, false)) != n0 {
			r1 := lib.solve1(o, timeoutS, all, ".cone")
			if r1.Status == "unsat" {
				return r1
			}
		}
	}
	if len(o.fullAssumes) != len(o.Assumes) {
		o.NoSlice = true
		r2 := lib.solve1(o, timeoutS, all, ".full")
		if r2.Status == "unsat" {
			return r2
		}
		if r.Status == "sat" && r2.Status != "sat" {
			r = r2
		} else if r2.Status == "sat" {
			r = r2
		}
	}
	if (r.Status == "timeout" || r.Status == "unknown") && os.Getenv("VERIF_NO_RETRY") == "" {
		r3 := lib.solve1(o, timeoutS*4, all, ".retry")
		if r3.Status == "unsat" || r3.Status == "sat" {
			return r3
		}
	}
	return r
}

func (lib *SpecLib) solve1(o *Obligation, timeoutS int, all bool, suffix string) *SolveResult {
	if o.Timeout > 0 && !all {
		timeoutS = o.Timeout
	}
	os.MkdirAll(workDir, 0o755)
	base := filepath.Join(workDir, sanitize(o.Name)+suffix)
	files := map[string]string{}
	for _, style := range []string{"z3", "cvc5"} {
		f := base + "." + style + ".smt2"
		if err := os.WriteFile(f, []byte(lib.Script(o, style, false)), 0o644); err != nil {
			return &SolveResult{Status: "error", Output: err.Error()}
		}
		files[style] = f
	}
	type ans struct {
		s      solverSpec
		status string
		out    string
		ms     int64
	}
	ctx, cancel := context.WithCancel(context.Background())
	defer cancel()
	ch := make(chan ans, len(solvers))
	for _, s := range solvers {
		s := s
		go func() {
			st, out, ms := runOne(ctx, s, files[s.style], timeoutS)
			ch <- ans{s, st, out, ms}
		}()
	}
	res := &SolveResult{Status: "timeout", File: files["z3"]}
	var outs []string
	got := 0
	for got < len(solvers) {
		a := <-ch
		got++
		outs = append(outs, fmt.Sprintf("[%s %dms] %s", a.s.name, a.ms, trunc(strings.TrimSpace(a.out), 300)))
		if a.status == "unsat" {
			if res.Status != "unsat" {
				res.Status, res.Solver, res.Ms = "unsat", a.s.name, a.ms
				if all {
					// confirmation by the other solvers: they get a bounded grace period, not the full timeout
					grace := 3 * time.Duration(a.ms) * time.Millisecond
					if grace < 5*time.Second {
						grace = 5 * time.Second
					}
					time.AfterFunc(grace, cancel)
				}
			} else {
				res.Confirm = append(res.Confirm, a.s.name)
			}
			if !all {
				break
			}
		} else if a.status == "sat" {
			if res.Status != "unsat" && res.Status != "sat" {
				res.Status, res.Solver, res.Ms = "sat", a.s.name, a.ms
				if !all {
					break
				}
			}
		} else if a.status == "unknown" && res.Status == "timeout" {
			res.Status = "unknown"
		} else if a.status == "error" && (res.Status == "timeout") {
			res.Status = "unknown"
		}
	}
	cancel()
	res.Output = strings.Join(outs, "\n")
	if res.Status == "sat" {
		// fetch a model with the solver that said sat
		for _, s := range solvers {
			if s.name == res.Solver {
				f := base + ".model." + s.style + ".smt2"
				os.WriteFile(f, []byte(lib.Script(o, s.style, true)), 0o644)
				_, out, _ := runOne(context.Background(), s, f, timeoutS)
				res.Model = out
			}
		}
	}
	return res
}

// SolveAll discharges obligations in parallel.
func (lib *SpecLib) SolveAll(obls []*Obligation, timeoutS int, workers int, all bool) {
	var wg sync.WaitGroup
	sem := make(chan struct{}, workers)
	var mu sync.Mutex
	failedIn := map[string]int{}
	for _, o := range obls {
		if o.Static != nil {
			st := "unsat"
			if !*o.Static {
				st = "sat"
			}
			o.Res = &SolveResult{Status: st, Solver: "static(go/types)"}
			continue
		}
		if o.Goal.IsTrue() {
			o.Res = &SolveResult{Status: "unsat", Solver: "simplifier"}
			continue
		}
		wg.Add(1)
		sem <- struct{}{}
		go func(o *Obligation) {
			defer wg.Done()
			defer func() { <-sem }()
			t := timeoutS
			if o.Canary {
				t = 3
			}
			if o.Group != "" {
				mu.Lock()
				nf := failedIn[o.Group]
				mu.Unlock()
				if nf >= 2 {
					o.Res = &SolveResult{Status: "unknown", Output: "not attempted: two other pieces of this split postcondition already failed"}
					return
				}
			}
			o.Res = lib.Solve(o, t, all && !o.Canary)
			if o.Group != "" && o.Res.Status != "unsat" {
				mu.Lock()
				failedIn[o.Group]++
				mu.Unlock()
			}
		}(o)
	}
	wg.Wait()
}
