package main

import (
	"fmt"
	"sync"
	"math/big"
	"sort"
	"strings"
)

// ---------- sorts ----------

type Sort struct {
	Name string // "Int", "Bool", "Array", "BV", or a declared sort name
	Idx  *Sort
	Elem *Sort
	W    int
}

var sortTab = map[string]*Sort{}

func mkSort(key string, s *Sort) *Sort {
	if x, ok := sortTab[key]; ok {
		return x
	}
	sortTab[key] = s
	return s
}

var (
	SInt  = mkSort("Int", &Sort{Name: "Int"})
	SBool = mkSort("Bool", &Sort{Name: "Bool"})
	SStr  = mkSort("Str", &Sort{Name: "Str"})
)

func SArr(idx, elem *Sort) *Sort {
	k := "(Array " + idx.String() + " " + elem.String() + ")"
	return mkSort(k, &Sort{Name: "Array", Idx: idx, Elem: elem})
}
func SBV(w int) *Sort {
	k := fmt.Sprintf("(_ BitVec %d)", w)
	return mkSort(k, &Sort{Name: "BV", W: w})
}
func SNamed(n string) *Sort { return mkSort(n, &Sort{Name: n}) }

func (s *Sort) String() string {
	switch s.Name {
	case "Array":
		return "(Array " + s.Idx.String() + " " + s.Elem.String() + ")"
	case "BV":
		return fmt.Sprintf("(_ BitVec %d)", s.W)
	}
	return s.Name
}

func (s *Sort) IsArr() bool { return s.Name == "Array" }

var SArrInt = SArr(SInt, SInt)
var SArrBool = SArr(SInt, SBool)
var SArrArrInt = SArr(SInt, SArrInt)

// SortFromSX parses a sort s-expression.
func SortFromSX(x *SX) (*Sort, error) {
	if !x.IsL {
		switch x.Atom {
		case "Int":
			return SInt, nil
		case "Bool":
			return SBool, nil
		}
		return SNamed(x.Atom), nil
	}
	if x.Head() == "Array" && len(x.List) == 3 {
		a, err := SortFromSX(x.List[1])
		if err != nil {
			return nil, err
		}
		b, err := SortFromSX(x.List[2])
		if err != nil {
			return nil, err
		}
		return SArr(a, b), nil
	}
	if x.Head() == "_" && len(x.List) == 3 && x.List[1].Atom == "BitVec" {
		var w int
		fmt.Sscanf(x.List[2].Atom, "%d", &w)
		return SBV(w), nil
	}
	return nil, fmt.Errorf("bad sort %s", x)
}

// ---------- terms ----------

type Term struct {
	Op    string // SMT operator / function symbol; "var" for constants; "int"/"bool" for literals; "forall"/"exists"
	Args  []*Term
	Sort  *Sort
	Name  string   // for var
	Int   *big.Int // for int literal
	B     bool     // for bool literal
	Bound []*Term  // for quantifiers
	Pat   [][]*Term
	id    int
	key   string
}

var termTab = map[string]*Term{}
var termCount int

func intern(t *Term) *Term {
	var b strings.Builder
	b.WriteString(t.Op)
	b.WriteByte('|')
	switch t.Op {
	case "var":
		b.WriteString(t.Name)
		b.WriteByte(':')
		b.WriteString(t.Sort.String())
	case "int":
		b.WriteString(t.Int.String())
	case "bool":
		if t.B {
			b.WriteByte('1')
		} else {
			b.WriteByte('0')
		}
	case "bvlit":
		b.WriteString(t.Int.String())
		fmt.Fprintf(&b, "w%d", t.Sort.W)
	case "constarr":
		b.WriteString(t.Sort.String())
	case "strlit":
		b.WriteString(t.Name)
		b.WriteByte(0)
	}
	for _, a := range t.Bound {
		fmt.Fprintf(&b, "b%d,", a.id)
	}
	for _, a := range t.Args {
		fmt.Fprintf(&b, "%d,", a.id)
	}
	for _, p := range t.Pat {
		b.WriteString("p")
		for _, a := range p {
			fmt.Fprintf(&b, "%d,", a.id)
		}
	}
	if t.Op != "var" && t.Op != "int" && t.Op != "bool" {
		b.WriteString(t.Sort.String())
	}
	k := b.String()
	if x, ok := termTab[k]; ok {
		return x
	}
	termCount++
	t.id = termCount
	t.key = k
	termTab[k] = t
	return t
}

func Var(name string, s *Sort) *Term { return intern(&Term{Op: "var", Name: name, Sort: s}) }

var freshCtr int

func Fresh(prefix string, s *Sort) *Term {
	freshCtr++
	return Var(fmt.Sprintf("%s!%d", sanitize(prefix), freshCtr), s)
}

func sanitize(s string) string {
	var b strings.Builder
	for _, c := range s {
		if c >= 'a' && c <= 'z' || c >= 'A' && c <= 'Z' || c >= '0' && c <= '9' || c == '_' || c == '.' {
			b.WriteRune(c)
		} else {
			b.WriteByte('_')
		}
	}
	return b.String()
}

func IntLit(v int64) *Term     { return intern(&Term{Op: "int", Int: big.NewInt(v), Sort: SInt}) }
func BigLit(v *big.Int) *Term  { return intern(&Term{Op: "int", Int: new(big.Int).Set(v), Sort: SInt}) }
func BoolLit(b bool) *Term     { return intern(&Term{Op: "bool", B: b, Sort: SBool}) }
func (t *Term) IsInt() bool    { return t.Op == "int" }
func (t *Term) IsBoolL() bool  { return t.Op == "bool" }
func (t *Term) IsTrue() bool   { return t.Op == "bool" && t.B }
func (t *Term) IsFalse() bool  { return t.Op == "bool" && !t.B }
func (t *Term) Int64() int64   { return t.Int.Int64() }
func BVLit(v *big.Int, w int) *Term {
	return intern(&Term{Op: "bvlit", Int: new(big.Int).Set(v), Sort: SBV(w)})
}

var True = BoolLit(true)
var False = BoolLit(false)
var Zero = IntLit(0)
var One = IntLit(1)

func ConstArr(s *Sort, v *Term) *Term {
	return intern(&Term{Op: "constarr", Args: []*Term{v}, Sort: s})
}

// App builds an application with simplification.
func App(op string, sort *Sort, args ...*Term) *Term {
	if t := simplify(op, sort, args); t != nil {
		return t
	}
	return intern(&Term{Op: op, Args: args, Sort: sort})
}

func RawApp(op string, sort *Sort, args ...*Term) *Term {
	return intern(&Term{Op: op, Args: args, Sort: sort})
}

func Quant(q string, bound []*Term, body *Term, pats ...[]*Term) *Term {
	if body.IsBoolL() {
		return body
	}
	if len(bound) == 0 {
		return body
	}
	return intern(&Term{Op: q, Bound: bound, Args: []*Term{body}, Sort: SBool, Pat: pats})
}

func allInt(args []*Term) bool {
	for _, a := range args {
		if !a.IsInt() {
			return false
		}
	}
	return true
}

func simplify(op string, sort *Sort, a []*Term) *Term {
	switch op {
	case "+":
		return linNorm(a, nil)
	case "-":
		if len(a) == 1 {
			return linNorm(nil, a)
		}
		if len(a) == 2 {
			return linNorm(a[:1], a[1:])
		}
		return nil
	case "*":
		if allInt(a) {
			p := big.NewInt(1)
			for _, x := range a {
				p.Mul(p, x.Int)
			}
			return BigLit(p)
		}
		if len(a) == 2 {
			for i := 0; i < 2; i++ {
				if a[i].IsInt() && a[i].Int.Sign() == 0 {
					return Zero
				}
				if a[i].IsInt() && a[i].Int.Cmp(big.NewInt(1)) == 0 {
					return a[1-i]
				}
			}
			// literal * linear term: distribute so that sums stay in normal form
			for i := 0; i < 2; i++ {
				if a[i].IsInt() {
					o := a[1-i]
					if o.Op == "+" || (o.Op == "*" && len(o.Args) == 2 && o.Args[0].IsInt()) {
						return linScale(a[i].Int, o)
					}
					if i == 1 {
						return intern(&Term{Op: "*", Args: []*Term{a[1], a[0]}, Sort: SInt})
					}
				}
			}
		}
		return nil
	case "div":
		if allInt(a) && len(a) == 2 && a[1].Int.Sign() != 0 {
			q, _ := new(big.Int).DivMod(a[0].Int, a[1].Int, new(big.Int)) // Euclidean
			return BigLit(q)
		}
		return nil
	case "mod":
		if allInt(a) && len(a) == 2 && a[1].Int.Sign() != 0 {
			_, m := new(big.Int).DivMod(a[0].Int, a[1].Int, new(big.Int))
			return BigLit(m)
		}
		return nil
	case "=":
		if len(a) == 2 {
			if a[0] == a[1] {
				return True
			}
			if a[0].IsInt() && a[1].IsInt() {
				return BoolLit(a[0].Int.Cmp(a[1].Int) == 0)
			}
			if a[0].IsBoolL() && a[1].IsBoolL() {
				return BoolLit(a[0].B == a[1].B)
			}
			if a[0].IsBoolL() {
				a[0], a[1] = a[1], a[0]
			}
			if a[1].IsBoolL() {
				if a[1].B {
					return a[0]
				}
				return App("not", SBool, a[0])
			}
			if a[0].Op == "strlit" && a[1].Op == "strlit" {
				return BoolLit(a[0].Name == a[1].Name)
			}
			if a[0].Op == "bvlit" && a[1].Op == "bvlit" {
				return BoolLit(a[0].Int.Cmp(a[1].Int) == 0)
			}
		}
		return nil
	case "distinct":
		if len(a) == 2 {
			return App("not", SBool, App("=", SBool, a[0], a[1]))
		}
		return nil
	case "<", "<=", ">", ">=":
		if len(a) == 2 && a[0].IsInt() && a[1].IsInt() {
			c := a[0].Int.Cmp(a[1].Int)
			switch op {
			case "<":
				return BoolLit(c < 0)
			case "<=":
				return BoolLit(c <= 0)
			case ">":
				return BoolLit(c > 0)
			default:
				return BoolLit(c >= 0)
			}
		}
		if len(a) == 2 && a[0] == a[1] {
			return BoolLit(op == "<=" || op == ">=")
		}
		// x + c1 < c2  -> keep (solver handles)
		return nil
	case "not":
		if a[0].IsBoolL() {
			return BoolLit(!a[0].B)
		}
		if a[0].Op == "not" {
			return a[0].Args[0]
		}
		return nil
	case "and":
		var rest []*Term
		seen := map[int]bool{}
		for _, x := range a {
			if x.IsFalse() {
				return False
			}
			if x.IsTrue() {
				continue
			}
			if x.Op == "and" {
				for _, y := range x.Args {
					if !seen[y.id] {
						seen[y.id] = true
						rest = append(rest, y)
					}
				}
				continue
			}
			if !seen[x.id] {
				seen[x.id] = true
				rest = append(rest, x)
			}
		}
		if len(rest) == 0 {
			return True
		}
		if len(rest) == 1 {
			return rest[0]
		}
		return intern(&Term{Op: "and", Args: rest, Sort: SBool})
	case "or":
		var rest []*Term
		seen := map[int]bool{}
		for _, x := range a {
			if x.IsTrue() {
				return True
			}
			if x.IsFalse() {
				continue
			}
			if !seen[x.id] {
				seen[x.id] = true
				rest = append(rest, x)
			}
		}
		if len(rest) == 0 {
			return False
		}
		if len(rest) == 1 {
			return rest[0]
		}
		return intern(&Term{Op: "or", Args: rest, Sort: SBool})
	case "=>":
		if len(a) == 2 {
			if a[0].IsTrue() {
				return a[1]
			}
			if a[0].IsFalse() || a[1].IsTrue() {
				return True
			}
			if a[1].IsFalse() {
				return App("not", SBool, a[0])
			}
		}
		return nil
	case "ite":
		if a[0].IsTrue() {
			return a[1]
		}
		if a[0].IsFalse() {
			return a[2]
		}
		if a[1] == a[2] {
			return a[1]
		}
		if sort == SBool {
			if a[1].IsTrue() && a[2].IsFalse() {
				return a[0]
			}
			if a[1].IsFalse() && a[2].IsTrue() {
				return App("not", SBool, a[0])
			}
		}
		return nil
	case "concat":
		if len(a) == 2 && a[0].Op == "bvlit" && a[1].Op == "bvlit" {
			v := new(big.Int).Lsh(a[0].Int, uint(a[1].Sort.W))
			v.Or(v, a[1].Int)
			return BVLit(v, a[0].Sort.W+a[1].Sort.W)
		}
		return nil
	case "select":
		arr, idx := a[0], a[1]
		if arr.Op == "ite" && idx.IsInt() {
			return Ite(arr.Args[0], App("select", sort, arr.Args[1], idx), App("select", sort, arr.Args[2], idx))
		}
		for {
			if arr.Op == "store" {
				si := arr.Args[1]
				if si == idx {
					return arr.Args[2]
				}
				if si.IsInt() && idx.IsInt() {
					// distinct literals: skip
					arr = arr.Args[0]
					continue
				}
				// maybe-distinct: check syntactic offset difference x+c1 vs x+c2
				if d, ok := constDiff(si, idx); ok && d != 0 {
					arr = arr.Args[0]
					continue
				}
				break
			}
			if arr.Op == "constarr" {
				return arr.Args[0]
			}
			break
		}
		if arr != a[0] {
			return App("select", sort, arr, idx)
		}
		return nil
	case "store":
		// store(a, i, select(a, i)) = a
		if a[2].Op == "select" && a[2].Args[0] == a[0] && a[2].Args[1] == a[1] {
			return a[0]
		}
		if a[0].Op == "constarr" && a[0].Args[0] == a[2] {
			return a[0]
		}
		// store(store(a,i,v),i,w) = store(a,i,w)
		if a[0].Op == "store" && a[0].Args[1] == a[1] {
			return App("store", sort, a[0].Args[0], a[1], a[2])
		}
		return nil
	}
	return nil
}

// constDiff returns a-b if syntactically a constant.
func constDiff(a, b *Term) (int64, bool) {
	ba, ca := splitConst(a)
	bb, cb := splitConst(b)
	if ba == bb {
		return ca - cb, true
	}
	return 0, false
}

func splitConst(t *Term) (*Term, int64) {
	if t.IsInt() {
		if t.Int.IsInt64() {
			return nil, t.Int.Int64()
		}
		return t, 0
	}
	if t.Op == "+" {
		last := t.Args[len(t.Args)-1]
		if last.IsInt() && last.Int.IsInt64() {
			rest := t.Args[:len(t.Args)-1]
			var base *Term
			if len(rest) == 1 {
				base = rest[0]
			} else {
				base = intern(&Term{Op: "+", Args: rest, Sort: SInt})
			}
			return base, last.Int.Int64()
		}
	}
	return t, 0
}

// convenience constructors
func Add(a ...*Term) *Term   { return App("+", SInt, a...) }
func Sub(a, b *Term) *Term   { return App("-", SInt, a, b) }
func Mul(a, b *Term) *Term   { return App("*", SInt, a, b) }
func Div(a, b *Term) *Term   { return App("div", SInt, a, b) }
func Mod(a, b *Term) *Term   { return App("mod", SInt, a, b) }
func Eq(a, b *Term) *Term    { return App("=", SBool, a, b) }
func Lt(a, b *Term) *Term    { return App("<", SBool, a, b) }
func Le(a, b *Term) *Term    { return App("<=", SBool, a, b) }
func Gt(a, b *Term) *Term    { return App(">", SBool, a, b) }
func Ge(a, b *Term) *Term    { return App(">=", SBool, a, b) }
func Not(a *Term) *Term      { return App("not", SBool, a) }
func And(a ...*Term) *Term   { return App("and", SBool, a...) }
func Or(a ...*Term) *Term    { return App("or", SBool, a...) }
func Imp(a, b *Term) *Term   { return App("=>", SBool, a, b) }
func Ite(c, a, b *Term) *Term { return App("ite", a.Sort, c, a, b) }
func Select(a, i *Term) *Term {
	return App("select", a.Sort.Elem, a, i)
}
func Store(a, i, v *Term) *Term { return App("store", a.Sort, a, i, v) }
func StrLit(s string) *Term     { return intern(&Term{Op: "strlit", Name: s, Sort: SStr}) }

// ---------- substitution ----------

func Subst(t *Term, m map[*Term]*Term) *Term {
	if len(m) == 0 {
		return t
	}
	cache := map[*Term]*Term{}
	var rec func(t *Term) *Term
	rec = func(t *Term) *Term {
		if r, ok := m[t]; ok {
			return r
		}
		if r, ok := cache[t]; ok {
			return r
		}
		if len(t.Args) == 0 {
			return t
		}
		changed := false
		na := make([]*Term, len(t.Args))
		for i, a := range t.Args {
			na[i] = rec(a)
			if na[i] != a {
				changed = true
			}
		}
		var np [][]*Term
		for _, p := range t.Pat {
			q := make([]*Term, len(p))
			for i, a := range p {
				q[i] = rec(a)
				if q[i] != a {
					changed = true
				}
			}
			np = append(np, q)
		}
		var r *Term
		if !changed {
			r = t
		} else if t.Op == "forall" || t.Op == "exists" {
			r = Quant(t.Op, t.Bound, na[0], np...)
		} else if t.Op == "constarr" {
			r = ConstArr(t.Sort, na[0])
		} else {
			r = App(t.Op, t.Sort, na...)
		}
		cache[t] = r
		return r
	}
	return rec(t)
}

// ---------- printing ----------

// String renders a term for messages; deep terms are cut off (a tree print of a shared DAG can be exponential).
func (t *Term) String() string {
	var b strings.Builder
	var rec func(t *Term, depth int)
	rec = func(t *Term, depth int) {
		if b.Len() > 4000 {
			return
		}
		if len(t.Args) == 0 || depth > 8 {
			if len(t.Args) == 0 {
				printTerm(&b, t, nil)
			} else {
				b.WriteString("(" + t.Op + " …)")
			}
			return
		}
		b.WriteString("(" + t.Op)
		if t.Name != "" {
			b.WriteString(":" + t.Name)
		}
		for _, a := range t.Args {
			b.WriteByte(' ')
			rec(a, depth+1)
		}
		b.WriteByte(')')
	}
	rec(t, 0)
	return b.String()
}

func smtInt(v *big.Int) string {
	if v.Sign() < 0 {
		return "(- " + new(big.Int).Neg(v).String() + ")"
	}
	return v.String()
}

func symName(n string) string {
	for _, c := range n {
		if !(c >= 'a' && c <= 'z' || c >= 'A' && c <= 'Z' || c >= '0' && c <= '9' || strings.ContainsRune("_.!$%&*+-/<=>?@^~", c)) {
			return "|" + n + "|"
		}
	}
	return n
}

func printTerm(b *strings.Builder, t *Term, names map[*Term]string) {
	if names != nil {
		if n, ok := names[t]; ok {
			b.WriteString(n)
			return
		}
	}
	switch t.Op {
	case "var":
		b.WriteString(symName(t.Name))
	case "int":
		b.WriteString(smtInt(t.Int))
	case "bool":
		if t.B {
			b.WriteString("true")
		} else {
			b.WriteString("false")
		}
	case "bvlit":
		fmt.Fprintf(b, "(_ bv%s %d)", t.Int.String(), t.Sort.W)
	case "strlit":
		b.WriteString(symName("str$" + strlitName(t.Name)))
	case "constarr":
		b.WriteString("((as const " + t.Sort.String() + ") ")
		printTerm(b, t.Args[0], names)
		b.WriteString(")")
	case "forall", "exists":
		b.WriteString("(" + t.Op + " (")
		for _, v := range t.Bound {
			b.WriteString("(" + symName(v.Name) + " " + v.Sort.String() + ")")
		}
		b.WriteString(") ")
		if len(t.Pat) > 0 {
			b.WriteString("(! ")
		}
		printTerm(b, t.Args[0], names)
		for _, p := range t.Pat {
			b.WriteString(" :pattern (")
			for i, a := range p {
				if i > 0 {
					b.WriteByte(' ')
				}
				printTerm(b, a, names)
			}
			b.WriteString(")")
		}
		if len(t.Pat) > 0 {
			b.WriteString(")")
		}
		b.WriteString(")")
	default:
		if len(t.Args) == 0 {
			b.WriteString(symName(t.Op))
			return
		}
		b.WriteString("(" + opName(t.Op))
		for _, a := range t.Args {
			b.WriteByte(' ')
			printTerm(b, a, names)
		}
		b.WriteString(")")
	}
}

func opName(op string) string {
	if strings.HasPrefix(op, "(_ ") {
		return op
	}
	return symName(op)
}

var strlits = map[string]string{}
var strlitMu sync.Mutex

func strlitName(s string) string {
	strlitMu.Lock()
	defer strlitMu.Unlock()
	if n, ok := strlits[s]; ok {
		return n
	}
	n := fmt.Sprintf("%d_%s", len(strlits), sanitize(s))
	if len(n) > 40 {
		n = n[:40]
	}
	strlits[s] = n
	return n
}

// collect free vars, uninterpreted function symbols, string literals.
type symInfo struct {
	vars    map[string]*Term
	funs    map[string]*Term // op -> sample application
	strs    map[string]*Term
	sorts   map[string]*Sort
	counts  map[*Term]int
	order   []*Term
	visited map[*Term]bool
}

func newSymInfo() *symInfo {
	return &symInfo{vars: map[string]*Term{}, funs: map[string]*Term{}, strs: map[string]*Term{}, sorts: map[string]*Sort{}, counts: map[*Term]int{}, visited: map[*Term]bool{}}
}

var builtinOps = map[string]bool{"+": true, "-": true, "*": true, "div": true, "mod": true, "=": true, "<": true, "<=": true, ">": true, ">=": true,
	"not": true, "and": true, "or": true, "=>": true, "ite": true, "select": true, "store": true, "distinct": true, "xor": true, "abs": true,
	"bvxor": true, "bvand": true, "bvor": true, "bvnot": true, "concat": true, "bvadd": true, "bvshl": true, "bvlshr": true}

func (si *symInfo) noteSort(s *Sort) {
	switch s.Name {
	case "Int", "Bool", "BV":
	case "Array":
		si.noteSort(s.Idx)
		si.noteSort(s.Elem)
	default:
		si.sorts[s.Name] = s
	}
}

func (si *symInfo) walk(t *Term, bound map[*Term]bool) {
	si.counts[t]++
	if si.visited[t] {
		return
	}
	si.visited[t] = true
	si.noteSort(t.Sort)
	switch t.Op {
	case "var":
		if !bound[t] {
			si.vars[t.Name] = t
		}
	case "strlit":
		si.strs[t.Name] = t
	case "int", "bool", "bvlit", "constarr":
	case "forall", "exists":
		nb := map[*Term]bool{}
		for k := range bound {
			nb[k] = true
		}
		for _, v := range t.Bound {
			nb[v] = true
			si.noteSort(v.Sort)
		}
		// bound vars are globally unique names (fresh), so a shared visited set is fine
		for _, a := range t.Args {
			si.walk(a, nb)
		}
		for _, p := range t.Pat {
			for _, a := range p {
				si.walk(a, nb)
			}
		}
		si.order = append(si.order, t)
		return
	default:
		if !builtinOps[t.Op] && !strings.HasPrefix(t.Op, "(_ ") {
			if _, ok := si.funs[t.Op]; !ok {
				si.funs[t.Op] = t
			}
		}
	}
	for _, a := range t.Args {
		si.walk(a, bound)
	}
	si.order = append(si.order, t)
}

func sortedKeys[V any](m map[string]V) []string {
	var ks []string
	for k := range m {
		ks = append(ks, k)
	}
	sort.Strings(ks)
	return ks
}

// hasBoundVar reports whether t mentions any of the bound variables.
func mentions(t *Term, vs map[*Term]bool, cache map[*Term]bool) bool {
	if r, ok := cache[t]; ok {
		return r
	}
	r := false
	if vs[t] {
		r = true
	} else {
		for _, a := range t.Args {
			if mentions(a, vs, cache) {
				r = true
				break
			}
		}
		if !r {
			for _, b := range t.Bound {
				if vs[b] {
					r = true
				}
			}
		}
	}
	cache[t] = r
	return r
}

// ---------- linear normal form for sums ----------

// linAdd accumulates c*t into the coefficient map (t non-literal), keeping first-seen order.
type linAcc struct {
	coef  map[*Term]*big.Int
	order []*Term
	k     *big.Int
}

func (l *linAcc) add(c *big.Int, t *Term) {
	switch {
	case t.IsInt():
		l.k.Add(l.k, new(big.Int).Mul(c, t.Int))
	case t.Op == "+":
		for _, x := range t.Args {
			l.add(c, x)
		}
	case t.Op == "*" && len(t.Args) == 2 && t.Args[0].IsInt():
		l.add(new(big.Int).Mul(c, t.Args[0].Int), t.Args[1])
	case t.Op == "-" && len(t.Args) == 2:
		l.add(c, t.Args[0])
		l.add(new(big.Int).Neg(c), t.Args[1])
	case t.Op == "-" && len(t.Args) == 1:
		l.add(new(big.Int).Neg(c), t.Args[0])
	default:
		if old, ok := l.coef[t]; ok {
			old.Add(old, c)
		} else {
			l.coef[t] = new(big.Int).Set(c)
			l.order = append(l.order, t)
		}
	}
}

func (l *linAcc) build() *Term {
	var parts []*Term
	for _, t := range l.order {
		c := l.coef[t]
		if c.Sign() == 0 {
			continue
		}
		if c.Cmp(big.NewInt(1)) == 0 {
			parts = append(parts, t)
		} else {
			parts = append(parts, intern(&Term{Op: "*", Args: []*Term{BigLit(c), t}, Sort: SInt}))
		}
	}
	if len(parts) == 0 {
		return BigLit(l.k)
	}
	if l.k.Sign() != 0 {
		parts = append(parts, BigLit(l.k))
	}
	if len(parts) == 1 {
		return parts[0]
	}
	return intern(&Term{Op: "+", Args: parts, Sort: SInt})
}

func linNorm(pos, neg []*Term) *Term {
	l := &linAcc{coef: map[*Term]*big.Int{}, k: new(big.Int)}
	one := big.NewInt(1)
	mone := big.NewInt(-1)
	for _, t := range pos {
		l.add(one, t)
	}
	for _, t := range neg {
		l.add(mone, t)
	}
	return l.build()
}

func linScale(c *big.Int, t *Term) *Term {
	l := &linAcc{coef: map[*Term]*big.Int{}, k: new(big.Int)}
	l.add(c, t)
	return l.build()
}

// isGround: no free variables and no applications of uninterpreted (body-less) functions.
func isGround(t *Term, lib *SpecLib, cache map[*Term]bool) bool {
	if r, ok := cache[t]; ok {
		return r
	}
	r := true
	switch t.Op {
	case "var", "forall", "exists":
		r = false
	case "int", "bool", "bvlit", "strlit":
	default:
		if !builtinOps[t.Op] && t.Op != "constarr" && !strings.HasPrefix(t.Op, "(_ ") {
			r = false
		}
		if r {
			for _, a := range t.Args {
				if !isGround(a, lib, cache) {
					r = false
					break
				}
			}
		}
	}
	cache[t] = r
	return r
}
