package main

import (
	"fmt"
	"math/big"
	"strings"
)

// CExpr is a contract-language expression.
type CExpr struct {
	K    string // ident, int, str, bin, un, call, index, slice, sel, cond, forall, exists, old, tuple
	S    string // identifier / operator / field name
	I    *big.Int
	A    []*CExpr
	Vars []string
	Src  string
}

func (e *CExpr) String() string {
	switch e.K {
	case "ident":
		return e.S
	case "int":
		return e.I.String()
	case "str":
		return fmt.Sprintf("%q", e.S)
	case "bin":
		return "(" + e.A[0].String() + " " + e.S + " " + e.A[1].String() + ")"
	case "un":
		return e.S + e.A[0].String()
	case "call":
		var as []string
		for _, a := range e.A[1:] {
			as = append(as, a.String())
		}
		return e.A[0].String() + "(" + strings.Join(as, ", ") + ")"
	case "index":
		return e.A[0].String() + "[" + e.A[1].String() + "]"
	case "slice":
		s := e.A[0].String() + "["
		if e.A[1] != nil {
			s += e.A[1].String()
		}
		s += ":"
		if e.A[2] != nil {
			s += e.A[2].String()
		}
		return s + "]"
	case "sel":
		return e.A[0].String() + "." + e.S
	case "cond":
		return "(" + e.A[0].String() + " ? " + e.A[1].String() + " : " + e.A[2].String() + ")"
	case "forall", "exists":
		return "(" + e.K + " " + strings.Join(e.Vars, ", ") + " :: " + e.A[0].String() + ")"
	case "old":
		return "old(" + e.A[0].String() + ")"
	}
	return "?" + e.K
}

type ctok struct {
	k string // id, int, str, op, eof
	s string
}

func clex(src string) ([]ctok, error) {
	var toks []ctok
	i := 0
	for i < len(src) {
		c := src[i]
		switch {
		case c == ' ' || c == '\t' || c == '\n' || c == '\r':
			i++
		case c >= 'a' && c <= 'z' || c >= 'A' && c <= 'Z' || c == '_':
			j := i
			for j < len(src) && (src[j] >= 'a' && src[j] <= 'z' || src[j] >= 'A' && src[j] <= 'Z' || src[j] == '_' || src[j] >= '0' && src[j] <= '9') {
				j++
			}
			toks = append(toks, ctok{"id", src[i:j]})
			i = j
		case c >= '0' && c <= '9':
			j := i
			for j < len(src) && (src[j] >= '0' && src[j] <= '9' || src[j] >= 'a' && src[j] <= 'f' || src[j] >= 'A' && src[j] <= 'F' || src[j] == 'x' || src[j] == '_') {
				j++
			}
			toks = append(toks, ctok{"int", strings.ReplaceAll(src[i:j], "_", "")})
			i = j
		case c == '"':
			j := i + 1
			for j < len(src) && src[j] != '"' {
				j++
			}
			if j >= len(src) {
				return nil, fmt.Errorf("unterminated string")
			}
			toks = append(toks, ctok{"str", src[i+1 : j]})
			i = j + 1
		default:
			ops := []string{"<==>", "==>", "::", "&&", "||", "==", "!=", "<=", ">=", "<<", ">>", "+", "-", "*", "/", "%", "<", ">", "!", "(", ")", "[", "]", ",", ":", "?", ".", "^", "&", "|"}
			found := false
			for _, op := range ops {
				if strings.HasPrefix(src[i:], op) {
					toks = append(toks, ctok{"op", op})
					i += len(op)
					found = true
					break
				}
			}
			if !found {
				return nil, fmt.Errorf("unexpected character %q at %d in %q", c, i, src)
			}
		}
	}
	toks = append(toks, ctok{"eof", ""})
	return toks, nil
}

type cparser struct {
	toks []ctok
	pos  int
	src  string
}

func ParseCExpr(src string) (*CExpr, error) {
	toks, err := clex(src)
	if err != nil {
		return nil, err
	}
	p := &cparser{toks: toks, src: src}
	e, err := p.expr(0)
	if err != nil {
		return nil, fmt.Errorf("%v in %q", err, src)
	}
	if p.peek().k != "eof" {
		return nil, fmt.Errorf("trailing tokens at %q in %q", p.peek().s, src)
	}
	e.Src = src
	return e, nil
}

func (p *cparser) peek() ctok { return p.toks[p.pos] }
func (p *cparser) next() ctok { t := p.toks[p.pos]; p.pos++; return t }
func (p *cparser) isOp(s string) bool {
	t := p.peek()
	return t.k == "op" && t.s == s
}
func (p *cparser) expect(s string) error {
	if !p.isOp(s) {
		return fmt.Errorf("expected %q, got %q", s, p.peek().s)
	}
	p.pos++
	return nil
}

// precedence: 1 <==>, 2 ==>, 3 ?:, 4 ||, 5 &&, 6 comparisons, 7 + - | ^, 8 * / % << >> &, 9 unary
var cprec = map[string]int{"<==>": 1, "==>": 2, "||": 4, "&&": 5, "==": 6, "!=": 6, "<": 6, "<=": 6, ">": 6, ">=": 6,
	"+": 7, "-": 7, "|": 7, "*": 8, "/": 8, "%": 8, "<<": 8, ">>": 8, "&": 8, "^": 9}

func (p *cparser) expr(minPrec int) (*CExpr, error) {
	lhs, err := p.unary()
	if err != nil {
		return nil, err
	}
	for {
		t := p.peek()
		if t.k != "op" {
			return lhs, nil
		}
		if t.s == "?" && minPrec <= 3 {
			p.pos++
			a, err := p.expr(3)
			if err != nil {
				return nil, err
			}
			if err := p.expect(":"); err != nil {
				return nil, err
			}
			b, err := p.expr(3)
			if err != nil {
				return nil, err
			}
			lhs = &CExpr{K: "cond", A: []*CExpr{lhs, a, b}}
			continue
		}
		pr, ok := cprec[t.s]
		if !ok || pr < minPrec {
			return lhs, nil
		}
		p.pos++
		nextMin := pr + 1
		if t.s == "==>" || t.s == "^" {
			nextMin = pr // right assoc
		}
		rhs, err := p.expr(nextMin)
		if err != nil {
			return nil, err
		}
		lhs = &CExpr{K: "bin", S: t.s, A: []*CExpr{lhs, rhs}}
	}
}

func (p *cparser) unary() (*CExpr, error) {
	t := p.peek()
	if t.k == "op" && (t.s == "!" || t.s == "-") {
		p.pos++
		e, err := p.unary()
		if err != nil {
			return nil, err
		}
		return &CExpr{K: "un", S: t.s, A: []*CExpr{e}}, nil
	}
	return p.postfix()
}

func (p *cparser) postfix() (*CExpr, error) {
	e, err := p.primary()
	if err != nil {
		return nil, err
	}
	for {
		switch {
		case p.isOp("."):
			p.pos++
			t := p.next()
			if t.k != "id" {
				return nil, fmt.Errorf("expected field name after '.'")
			}
			e = &CExpr{K: "sel", S: t.s, A: []*CExpr{e}}
		case p.isOp("("):
			p.pos++
			args := []*CExpr{e}
			for !p.isOp(")") {
				a, err := p.expr(0)
				if err != nil {
					return nil, err
				}
				args = append(args, a)
				if p.isOp(",") {
					p.pos++
				} else if !p.isOp(")") {
					return nil, fmt.Errorf("expected , or ) got %q", p.peek().s)
				}
			}
			p.pos++
			e = &CExpr{K: "call", A: args}
		case p.isOp("["):
			p.pos++
			var lo, hi *CExpr
			if !p.isOp(":") {
				lo, err = p.expr(0)
				if err != nil {
					return nil, err
				}
			}
			if p.isOp(":") {
				p.pos++
				if !p.isOp("]") {
					hi, err = p.expr(0)
					if err != nil {
						return nil, err
					}
				}
				if err := p.expect("]"); err != nil {
					return nil, err
				}
				e = &CExpr{K: "slice", A: []*CExpr{e, lo, hi}}
			} else {
				if err := p.expect("]"); err != nil {
					return nil, err
				}
				e = &CExpr{K: "index", A: []*CExpr{e, lo}}
			}
		default:
			return e, nil
		}
	}
}

func (p *cparser) primary() (*CExpr, error) {
	t := p.next()
	switch t.k {
	case "int":
		v, ok := new(big.Int).SetString(t.s, 0)
		if !ok {
			return nil, fmt.Errorf("bad integer %q", t.s)
		}
		return &CExpr{K: "int", I: v}, nil
	case "str":
		return &CExpr{K: "str", S: t.s}, nil
	case "id":
		if t.s == "forall" || t.s == "exists" {
			var vars []string
			for {
				v := p.next()
				if v.k != "id" {
					return nil, fmt.Errorf("expected bound variable")
				}
				vars = append(vars, v.s)
				if p.peek().k == "id" && p.peek().s == "int" {
					p.pos++
				}
				if p.isOp(",") {
					p.pos++
					continue
				}
				break
			}
			if err := p.expect("::"); err != nil {
				return nil, err
			}
			body, err := p.expr(0)
			if err != nil {
				return nil, err
			}
			return &CExpr{K: t.s, Vars: vars, A: []*CExpr{body}}, nil
		}
		if t.s == "old" && p.isOp("(") {
			p.pos++
			e, err := p.expr(0)
			if err != nil {
				return nil, err
			}
			if err := p.expect(")"); err != nil {
				return nil, err
			}
			return &CExpr{K: "old", A: []*CExpr{e}}, nil
		}
		return &CExpr{K: "ident", S: t.s}, nil
	case "op":
		if t.s == "(" {
			e, err := p.expr(0)
			if err != nil {
				return nil, err
			}
			if err := p.expect(")"); err != nil {
				return nil, err
			}
			return e, nil
		}
	}
	return nil, fmt.Errorf("unexpected token %q", t.s)
}
