package main

import (
	"fmt"
	"go/types"
	"math/big"
	"strings"
)

// ---------- kinds: the model's view of Go types ----------

type Kind struct {
	K      string // int, bool, var, str, big, err, slice, struct, ptr, obj, func, float, unit
	Elem   *Kind
	N      int // fixed array length (slice kind with Fixed)
	Fixed  bool
	Name   string
	Fields []KField
	Lo, Hi string // integer range (decimal) for int kinds; "" = unbounded
	GoT    types.Type
}

type KField struct {
	Name string
	K    *Kind
}

var kindCache = map[types.Type]*Kind{}

func isVariableType(t types.Type) bool {
	if n, ok := t.(*types.Named); ok {
		o := n.Obj()
		return o.Name() == "Variable" && o.Pkg() != nil && strings.HasSuffix(o.Pkg().Path(), "gnark/frontend")
	}
	return false
}

func isBigInt(t types.Type) bool {
	if n, ok := t.(*types.Named); ok {
		o := n.Obj()
		return o.Name() == "Int" && o.Pkg() != nil && o.Pkg().Path() == "math/big"
	}
	return false
}

func isErrorType(t types.Type) bool {
	if n, ok := t.(*types.Named); ok {
		return n.Obj().Name() == "error" && n.Obj().Pkg() == nil
	}
	return false
}

func qualName(n *types.Named) string {
	o := n.Obj()
	if o.Pkg() == nil {
		return o.Name()
	}
	return o.Pkg().Path() + "." + o.Name()
}

var repoPrefix = "worldcoin/gnark-mbu"

// maxSliceLen: no Go slice with elements of non-zero size is longer than maxAlloc = 2^48 bytes on 64-bit platforms
var maxSliceLen = BigLit(new(big.Int).Lsh(big.NewInt(1), 48))

func kindOf(t types.Type) *Kind {
	if t == nil {
		return &Kind{K: "unit"}
	}
	if k, ok := kindCache[t]; ok {
		return k
	}
	k := &Kind{GoT: t}
	kindCache[t] = k
	switch {
	case isVariableType(t):
		k.K = "var"
		return k
	case isBigInt(t):
		k.K = "big"
		return k
	case isErrorType(t):
		k.K = "err"
		return k
	}
	switch u := t.(type) {
	case *types.Named:
		under := u.Underlying()
		switch uu := under.(type) {
		case *types.Struct:
			if u.Obj().Pkg() != nil && strings.HasPrefix(u.Obj().Pkg().Path(), repoPrefix) {
				k.K = "struct"
				k.Name = qualName(u)
				for i := 0; i < uu.NumFields(); i++ {
					f := uu.Field(i)
					k.Fields = append(k.Fields, KField{f.Name(), kindOf(f.Type())})
				}
				return k
			}
			k.K = "obj"
			k.Name = qualName(u)
			return k
		case *types.Interface:
			k.K = "obj"
			k.Name = qualName(u)
			return k
		case *types.Basic, *types.Slice, *types.Array, *types.Pointer, *types.Signature:
			kk := kindOf(under)
			*k = *kk
			k.GoT = t
			if k.Name == "" {
				k.Name = qualName(u)
			}
			return k
		default:
			k.K = "obj"
			k.Name = qualName(u)
			return k
		}
	case *types.Alias:
		kk := kindOf(types.Unalias(t))
		*k = *kk
		return k
	case *types.Basic:
		switch {
		case u.Info()&types.IsBoolean != 0:
			k.K = "bool"
		case u.Info()&types.IsInteger != 0:
			k.K = "int"
			switch u.Kind() {
			case types.Uint8:
				k.Lo, k.Hi = "0", "255"
			case types.Uint16:
				k.Lo, k.Hi = "0", "65535"
			case types.Uint32:
				k.Lo, k.Hi = "0", "4294967295"
			case types.Uint64, types.Uint, types.Uintptr:
				k.Lo, k.Hi = "0", "18446744073709551615"
			case types.Int8:
				k.Lo, k.Hi = "-128", "127"
			case types.Int16:
				k.Lo, k.Hi = "-32768", "32767"
			case types.Int32:
				k.Lo, k.Hi = "-2147483648", "2147483647"
			case types.Int64, types.Int:
				k.Lo, k.Hi = "-9223372036854775808", "9223372036854775807"
			case types.UntypedInt, types.UntypedRune:
			}
		case u.Info()&types.IsString != 0:
			k.K = "str"
		case u.Info()&types.IsFloat != 0:
			k.K = "float"
		case u.Kind() == types.UntypedNil:
			k.K = "nil"
		default:
			k.K = "obj"
			k.Name = u.Name()
		}
		return k
	case *types.Slice:
		k.K = "slice"
		k.Elem = kindOf(u.Elem())
		return k
	case *types.Array:
		k.K = "slice"
		k.Fixed = true
		k.N = int(u.Len())
		k.Elem = kindOf(u.Elem())
		return k
	case *types.Pointer:
		k.K = "ptr"
		k.Elem = kindOf(u.Elem())
		return k
	case *types.Struct:
		k.K = "struct"
		k.Name = "anon"
		for i := 0; i < u.NumFields(); i++ {
			f := u.Field(i)
			k.Fields = append(k.Fields, KField{f.Name(), kindOf(f.Type())})
		}
		return k
	case *types.Signature:
		k.K = "func"
		return k
	case *types.Tuple:
		k.K = "tuple"
		for i := 0; i < u.Len(); i++ {
			k.Fields = append(k.Fields, KField{u.At(i).Name(), kindOf(u.At(i).Type())})
		}
		return k
	case *types.Interface:
		k.K = "obj"
		k.Name = "interface"
		return k
	case *types.Chan:
		k.K = "obj"
		k.Name = "chan"
		return k
	case *types.Map:
		k.K = "obj"
		k.Name = "map"
		return k
	}
	k.K = "obj"
	k.Name = t.String()
	return k
}

func (k *Kind) isScalar() bool {
	switch k.K {
	case "int", "bool", "var", "str", "big", "err", "obj", "func", "nil", "float":
		return true
	}
	return false
}

// sortOf gives the SMT sort of a scalar kind or array-of.
func (k *Kind) sortOf() *Sort {
	switch k.K {
	case "int", "var", "big", "err", "obj", "ptr", "func", "float":
		return SInt
	case "bool":
		return SBool
	case "str":
		return SStr
	case "slice":
		return SArr(SInt, k.Elem.sortOf())
	}
	return SInt
}

func (k *Kind) String() string {
	switch k.K {
	case "slice":
		if k.Fixed {
			return fmt.Sprintf("[%d]%s", k.N, k.Elem)
		}
		return "[]" + k.Elem.String()
	case "ptr":
		return "*" + k.Elem.String()
	case "struct", "obj":
		return k.K + ":" + k.Name
	}
	return k.K
}

// ---------- values ----------

type Val interface{}

// SV is a scalar value: Go ints/bools/strings/errors/big.Int/frontend.Variable/opaque handles as SMT terms.
type SV struct {
	T   *Term
	Lit *Term // only for frontend.Variable: Bool "dynamic value is the Go int constant 0"; nil = not tracked
}

type SliceV struct {
	Elem *Kind
	Len  *Term
	Arr  *Term
	Lens *Term // nested symbolic slices: lengths of the inner slices
	Lit  *Term // (Array Int Bool) lit0 flags for var elements, optional
	Vec  []Val // explicit representation (authoritative when non-nil)
	IsV  bool  // Vec authoritative (allows empty Vec)
	Tag  int
	Base *Term // explicit vectors obtained by exploding an array remember it: unchanged elements are Select(Base,i)
	BaseLens *Term
	ViewTag  int   // for sub-slice views (Tag == -1): tag of the parent backing array and the offset into it
	ViewOff  *Term
	FieldArr map[string]*Term // symbolic slices of structs with scalar fields: one array per field
}

type StructV struct {
	K *Kind
	F map[string]Val
}

type Cell struct {
	id   int
	name string
}

type Acc struct {
	Field string
	Idx   *Term
}

type RefV struct {
	Cell *Cell
	Path []Acc
	Nil  bool  // definitely nil
	NilT *Term // when non-nil: the pointer is nil iff this holds (Cell is what it points to otherwise)
}

// nilTerm is the condition under which the pointer is nil.
func (r *RefV) nilTerm() *Term {
	if r.Nil {
		return True
	}
	if r.NilT != nil {
		return r.NilT
	}
	return False
}

// ObjV is an opaque external object (interface value, library struct) with ghost fields.
type ObjV struct {
	K     *Kind
	ID    *Term
	Ghost map[string]Val
}

type FuncV struct {
	Name string
	Lit  interface{}
	Caps map[string]Val
}

type TupleV struct{ Vs []Val }

var tagCtr int

func newTag() int { tagCtr++; return tagCtr }

var cellCtr int

func newCell(name string) *Cell { cellCtr++; return &Cell{cellCtr, name} }

func IntV(t *Term) SV  { return SV{T: t} }
func BoolV(t *Term) SV { return SV{T: t} }

func (s *SliceV) explicit() bool { return s.IsV }

func mkVec(elem *Kind, vs []Val) *SliceV {
	return &SliceV{Elem: elem, Len: IntLit(int64(len(vs))), Vec: vs, IsV: true, Tag: newTag()}
}

func zeroTerm(k *Kind) *Term {
	switch k.K {
	case "bool":
		return False
	case "str":
		return StrLit("")
	case "slice":
		return ConstArr(k.sortOf(), zeroTerm(k.Elem))
	}
	return Zero
}

func zeroVal(k *Kind) Val {
	switch k.K {
	case "int", "big", "err", "ptr", "func", "obj", "float":
		if k.K == "obj" {
			g := map[string]Val{}
			for _, d := range ghostDecls[k.Name] {
				g[d.Name] = zeroVal(ghostKind(d.Kind))
			}
			if a := adtOf[k.Name]; a != nil {
				return &ObjV{K: k, ID: App(a.Nil, a.Sort), Ghost: g}
			}
			return &ObjV{K: k, ID: Zero, Ghost: g}
		}
		if k.K == "ptr" {
			return &RefV{Nil: true}
		}
		return SV{T: Zero}
	case "var":
		// nil interface: treated as value 0, not the literal int 0
		return SV{T: Zero, Lit: False}
	case "bool":
		return SV{T: False}
	case "str":
		return SV{T: StrLit("")}
	case "slice":
		if k.Fixed {
			vs := make([]Val, k.N)
			for i := range vs {
				vs[i] = zeroVal(k.Elem)
			}
			return mkVec(k.Elem, vs)
		}
		return mkVec(k.Elem, nil)
	case "struct":
		f := map[string]Val{}
		for _, fd := range k.Fields {
			f[fd.Name] = zeroVal(fd.K)
		}
		return &StructV{K: k, F: f}
	}
	return SV{T: Zero}
}

// elemAt reads element i of a slice value.
func (s *SliceV) elemAt(i *Term) Val {
	if s.IsV {
		if i.IsInt() {
			idx := int(i.Int64())
			if idx >= 0 && idx < len(s.Vec) {
				return s.Vec[idx]
			}
			return zeroVal(s.Elem)
		}
		// symbolic index into explicit vector: build ite chain for scalars, else materialize
		if s.Elem.isScalar() && len(s.Vec) <= 64 {
			var cur Val = zeroVal(s.Elem)
			for k := len(s.Vec) - 1; k >= 0; k-- {
				cur = mergeVal(Eq(i, IntLit(int64(k))), s.Vec[k], cur)
			}
			return cur
		}
		m := s.materialize()
		return m.elemAt(i)
	}
	switch s.Elem.K {
	case "slice":
		if s.Arr == nil {
			panic(unsupported("3-level slice used without a shape clause"))
		}
		inner := &SliceV{Elem: s.Elem.Elem, Len: Select(s.Lens, i), Arr: Select(s.Arr, i), Tag: 0}
		if s.Elem.Fixed {
			inner.Len = IntLit(int64(s.Elem.N))
		}
		return inner
	case "struct":
		if s.FieldArr == nil {
			panic(unsupported("symbolic slice of structs"))
		}
		f := map[string]Val{}
		for _, fd := range s.Elem.Fields {
			t := Select(s.FieldArr[fd.Name], i)
			if fd.K.K == "obj" {
				f[fd.Name] = &ObjV{K: fd.K, ID: t, Ghost: map[string]Val{}}
			} else {
				f[fd.Name] = SV{T: t}
			}
		}
		return &StructV{K: s.Elem, F: f}
	case "obj":
		return &ObjV{K: s.Elem, ID: Select(s.Arr, i), Ghost: map[string]Val{}}
	}
	v := SV{T: Select(s.Arr, i)}
	if s.Elem.K == "var" && s.Lit != nil {
		v.Lit = Select(s.Lit, i)
	}
	return v
}

type unsupportedErr struct{ msg string }

func (u unsupportedErr) Error() string { return "unsupported: " + u.msg }
func unsupported(f string, a ...interface{}) error {
	return unsupportedErr{fmt.Sprintf(f, a...)}
}

func valTerm(v Val) *Term {
	switch x := v.(type) {
	case SV:
		return x.T
	case *ObjV:
		return x.ID
	case *SliceV:
		return x.materialize().Arr
	}
	panic(unsupported("valTerm of %T", v))
}

// materialize converts an explicit vector into array form.
func (s *SliceV) materialize() *SliceV {
	if !s.IsV {
		return s
	}
	r := &SliceV{Elem: s.Elem, Len: IntLit(int64(len(s.Vec))), Tag: s.Tag}
	arr := zeroTerm(&Kind{K: "slice", Elem: s.Elem})
	if s.Base != nil {
		arr = s.Base
	}
	var lens *Term
	var lit *Term
	if s.Elem.K == "slice" {
		lens = ConstArr(SArrInt, Zero)
		if s.BaseLens != nil {
			lens = s.BaseLens
		}
	}
	if s.Elem.K == "var" {
		allLit := true
		for _, e := range s.Vec {
			if e.(SV).Lit == nil {
				allLit = false
			}
		}
		if allLit {
			lit = ConstArr(SArrBool, False)
		}
	}
	for i, e := range s.Vec {
		idx := IntLit(int64(i))
		switch ev := e.(type) {
		case SV:
			if s.Base != nil && ev.T == Select(s.Base, idx) {
				if lit != nil {
					lit = Store(lit, idx, ev.Lit)
				}
				continue
			}
			arr = Store(arr, idx, ev.T)
			if lit != nil {
				lit = Store(lit, idx, ev.Lit)
			}
		case *ObjV:
			arr = Store(arr, idx, ev.ID)
		case *SliceV:
			m := ev.materialize()
			if s.Base != nil && s.BaseLens != nil && m.Arr == Select(s.Base, idx) && m.Len == Select(s.BaseLens, idx) {
				continue
			}
			arr = Store(arr, idx, m.Arr)
			lens = Store(lens, idx, m.Len)
			if m.Elem.K == "slice" {
				panic(unsupported("materialize 3-level nested slice"))
			}
		default:
			panic(unsupported("materialize slice of %T", e))
		}
	}
	r.Arr, r.Lens, r.Lit = arr, lens, lit
	return r
}

// explode converts an array-form slice with literal length into explicit form.
func (s *SliceV) explode() *SliceV {
	if s.IsV || !s.Len.IsInt() {
		return s
	}
	n := int(s.Len.Int64())
	if n > 4096 {
		return s
	}
	vs := make([]Val, n)
	for i := 0; i < n; i++ {
		e := s.elemAt(IntLit(int64(i)))
		if is, ok := e.(*SliceV); ok {
			e = is.explode()
		}
		vs[i] = e
	}
	r := &SliceV{Elem: s.Elem, Len: s.Len, Vec: vs, IsV: true, Tag: s.Tag}
	if s.Elem.K != "slice" && s.Lit == nil {
		r.Base = s.Arr
	}
	return r
}

// setElem returns a copy with element i replaced.
func (s *SliceV) setElem(i *Term, v Val) *SliceV {
	if s.IsV {
		if i.IsInt() {
			idx := int(i.Int64())
			nv := make([]Val, len(s.Vec))
			copy(nv, s.Vec)
			if idx >= 0 && idx < len(nv) {
				nv[idx] = v
			}
			return &SliceV{Elem: s.Elem, Len: s.Len, Vec: nv, IsV: true, Tag: s.Tag, Base: s.Base}
		}
		if s.Elem.isScalar() && len(s.Vec) <= 64 {
			nv := make([]Val, len(s.Vec))
			for k := range nv {
				nv[k] = mergeVal(Eq(i, IntLit(int64(k))), v, s.Vec[k])
			}
			return &SliceV{Elem: s.Elem, Len: s.Len, Vec: nv, IsV: true, Tag: s.Tag}
		}
		return s.materialize().setElem(i, v)
	}
	r := *s
	switch ev := v.(type) {
	case SV:
		r.Arr = Store(s.Arr, i, ev.T)
		if s.Lit != nil {
			if ev.Lit != nil {
				r.Lit = Store(s.Lit, i, ev.Lit)
			} else {
				r.Lit = nil
			}
		}
	case *ObjV:
		r.Arr = Store(s.Arr, i, ev.ID)
	case *SliceV:
		m := ev.materialize()
		r.Arr = Store(s.Arr, i, m.Arr)
		r.Lens = Store(s.Lens, i, m.Len)
	default:
		panic(unsupported("store %T into symbolic slice", v))
	}
	return &r
}

// mergeVal builds ite(c, a, b) on values.
// detach returns a copy of a value that shares no backing array with program variables (ghost snapshots must not
// follow later in-place element stores the way aliasing Go slices do).
func detach(v Val) Val {
	switch x := v.(type) {
	case *SliceV:
		c := *x
		c.Tag, c.ViewTag, c.ViewOff = 0, 0, nil
		if x.Vec != nil {
			c.Vec = make([]Val, len(x.Vec))
			for i, e := range x.Vec {
				c.Vec[i] = detach(e)
			}
		}
		return &c
	case *StructV:
		f := make(map[string]Val, len(x.F))
		for k, e := range x.F {
			f[k] = detach(e)
		}
		return &StructV{K: x.K, F: f}
	}
	return v
}

// scalarVec: an explicit vector of scalars (long ones are merged as whole arrays: ite(c, A, B) keeps
// f(ite(c, A, B)) = ite(c, f(A), f(B)) visible to the solver, which an element-wise merge hides)
func scalarVec(s *SliceV) bool {
	for _, e := range s.Vec {
		if _, ok := e.(SV); !ok {
			return false
		}
	}
	return true
}

func mergeVal(c *Term, a, b Val) Val {
	if c.IsTrue() {
		return a
	}
	if c.IsFalse() {
		return b
	}
	switch x := a.(type) {
	case SV:
		y, ok := b.(SV)
		if !ok {
			panic(unsupported("merge %T with %T", a, b))
		}
		if x.T == y.T && x.Lit == y.Lit {
			return x
		}
		r := SV{T: Ite(c, x.T, y.T)}
		if x.Lit != nil && y.Lit != nil {
			r.Lit = Ite(c, x.Lit, y.Lit)
		}
		return r
	case *SliceV:
		y, ok := b.(*SliceV)
		if !ok {
			panic(unsupported("merge %T with %T", a, b))
		}
		if x == y {
			return x
		}
		if x.IsV && y.IsV && len(x.Vec) == len(y.Vec) && len(x.Vec) >= 64 && scalarVec(x) && scalarVec(y) {
			same := true
			for i := range x.Vec {
				if !sameVal(x.Vec[i], y.Vec[i]) {
					same = false
					break
				}
			}
			if same {
				return x
			}
		} else if x.IsV && y.IsV && len(x.Vec) == len(y.Vec) {
			nv := make([]Val, len(x.Vec))
			same := true
			for i := range nv {
				nv[i] = mergeVal(c, x.Vec[i], y.Vec[i])
				if !sameVal(nv[i], x.Vec[i]) {
					same = false
				}
			}
			if same {
				return x
			}
			tag := 0
			if x.Tag == y.Tag {
				tag = x.Tag
			}
			return &SliceV{Elem: x.Elem, Len: x.Len, Vec: nv, IsV: true, Tag: tag}
		}
		xm, ym := x.materialize(), y.materialize()
		if xm.FieldArr != nil && ym.FieldArr != nil {
			nf := map[string]*Term{}
			for k, a := range xm.FieldArr {
				nf[k] = Ite(c, a, ym.FieldArr[k])
			}
			return &SliceV{Elem: x.Elem, Len: Ite(c, xm.Len, ym.Len), FieldArr: nf}
		}
		r := &SliceV{Elem: x.Elem, Len: Ite(c, xm.Len, ym.Len), Arr: Ite(c, xm.Arr, ym.Arr)}
		if xm.Lens != nil && ym.Lens != nil {
			r.Lens = Ite(c, xm.Lens, ym.Lens)
		}
		if xm.Lit != nil && ym.Lit != nil {
			r.Lit = Ite(c, xm.Lit, ym.Lit)
		}
		if x.Tag == y.Tag {
			r.Tag = x.Tag
		}
		return r
	case *StructV:
		y, ok := b.(*StructV)
		if !ok {
			panic(unsupported("merge %T with %T", a, b))
		}
		if x == y {
			return x
		}
		f := map[string]Val{}
		for k, v := range x.F {
			f[k] = mergeVal(c, v, y.F[k])
		}
		return &StructV{K: x.K, F: f}
	case *ObjV:
		y, ok := b.(*ObjV)
		if !ok {
			panic(unsupported("merge %T with %T", a, b))
		}
		if x == y {
			return x
		}
		g := map[string]Val{}
		for k, v := range x.Ghost {
			if w, ok := y.Ghost[k]; ok {
				g[k] = mergeVal(c, v, w)
			}
		}
		return &ObjV{K: x.K, ID: Ite(c, x.ID, y.ID), Ghost: g}
	case *RefV:
		y, ok := b.(*RefV)
		if !ok {
			panic(unsupported("merge %T with %T", a, b))
		}
		if x.Nil && y.Nil {
			return x
		}
		if x.Cell == y.Cell && len(x.Path) == 0 && len(y.Path) == 0 && x.Nil == y.Nil && x.NilT == y.NilT {
			return x
		}
		// one side nil, or same target with different nil-ness: a possibly-nil pointer to the non-nil side's target
		if x.Nil || y.Nil || (x.Cell == y.Cell && len(x.Path) == 0 && len(y.Path) == 0) {
			tgt := x
			if x.Nil {
				tgt = y
			}
			return &RefV{Cell: tgt.Cell, Path: tgt.Path, NilT: Ite(c, x.nilTerm(), y.nilTerm())}
		}
		panic(unsupported("merge of distinct pointers"))
	case *TupleV:
		y := b.(*TupleV)
		vs := make([]Val, len(x.Vs))
		for i := range vs {
			vs[i] = mergeVal(c, x.Vs[i], y.Vs[i])
		}
		return &TupleV{vs}
	case *FuncV:
		return x
	case nil:
		return nil
	}
	panic(unsupported("merge %T", a))
}

func sameVal(a, b Val) bool {
	switch x := a.(type) {
	case SV:
		y, ok := b.(SV)
		return ok && x.T == y.T && x.Lit == y.Lit
	case *SliceV:
		y, ok := b.(*SliceV)
		if !ok {
			return false
		}
		if x == y {
			return true
		}
		if x.IsV != y.IsV {
			return false
		}
		if x.IsV {
			if len(x.Vec) != len(y.Vec) {
				return false
			}
			for i := range x.Vec {
				if !sameVal(x.Vec[i], y.Vec[i]) {
					return false
				}
			}
			return true
		}
		if len(x.FieldArr) != len(y.FieldArr) {
			return false
		}
		for k, a := range x.FieldArr {
			if y.FieldArr[k] != a {
				return false
			}
		}
		return x.Len == y.Len && x.Arr == y.Arr && x.Lens == y.Lens && x.Lit == y.Lit
	case *StructV:
		y, ok := b.(*StructV)
		if !ok {
			return false
		}
		if x == y {
			return true
		}
		for k, v := range x.F {
			if !sameVal(v, y.F[k]) {
				return false
			}
		}
		return true
	case *ObjV:
		y, ok := b.(*ObjV)
		if !ok {
			return false
		}
		if x == y {
			return true
		}
		if x.ID != y.ID || len(x.Ghost) != len(y.Ghost) {
			return false
		}
		for k, v := range x.Ghost {
			if w, ok := y.Ghost[k]; !ok || !sameVal(v, w) {
				return false
			}
		}
		return true
	case *RefV:
		y, ok := b.(*RefV)
		return ok && (x == y || (x.Cell == y.Cell && len(x.Path) == 0 && len(y.Path) == 0 && x.Nil == y.Nil && x.NilT == y.NilT))
	case *TupleV:
		y, ok := b.(*TupleV)
		if !ok || len(x.Vs) != len(y.Vs) {
			return false
		}
		for i := range x.Vs {
			if !sameVal(x.Vs[i], y.Vs[i]) {
				return false
			}
		}
		return true
	}
	return a == b
}
