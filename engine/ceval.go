package main

import (
	"fmt"
	"os"
	"math/big"
	"strings"
)

// CEnv is the environment a contract expression is evaluated in.
type CEnv struct {
	ex     *Exec
	st     *State
	lookup func(name string) (Val, bool)
	old    *CEnv
	ok     *Term
	ok0    *Term
	bound  map[string]*Term
	lets   map[string]*CExpr
	letEnv *CEnv // env in which lets are evaluated (self)
	depth  int
	atCallSite bool // evaluating a callee's contract at a call site: called()/origin() speak about the callee's own path
}

func (ce *CEnv) child() *CEnv {
	c := *ce
	c.bound = map[string]*Term{}
	for k, v := range ce.bound {
		c.bound[k] = v
	}
	return &c
}

func (ce *CEnv) errf(e *CExpr, f string, a ...interface{}) error {
	return fmt.Errorf("contract expr %s: %s", e.String(), fmt.Sprintf(f, a...))
}

func (ce *CEnv) evalBool(e *CExpr) *Term {
	v := ce.eval(e)
	sv, ok := v.(SV)
	if !ok || sv.T.Sort != SBool {
		panic(ce.errf(e, "expected boolean, got %T %v", v, v))
	}
	return sv.T
}

func (ce *CEnv) evalTerm(e *CExpr) *Term {
	v := ce.eval(e)
	switch x := v.(type) {
	case SV:
		return x.T
	case *SliceV:
		return x.materialize().Arr
	case *ObjV:
		return x.ID
	case *RefV:
		if x.Nil {
			return Zero
		}
		return Ite(x.nilTerm(), Zero, IntLit(int64(1000000+x.Cell.id)))
	}
	panic(ce.errf(e, "expected scalar, got %T", v))
}

func (ce *CEnv) eval(e *CExpr) Val {
	switch e.K {
	case "int":
		return SV{T: BigLit(e.I)}
	case "str":
		return SV{T: StrLit(e.S)}
	case "ident":
		switch e.S {
		case "true":
			return SV{T: True}
		case "false":
			return SV{T: False}
		case "nil":
			return SV{T: Zero}
		case "ok0":
			if ce.ok0 == nil {
				panic(ce.errf(e, "ok0 used in a function without api"))
			}
			return SV{T: ce.ok0}
		}
		if t, ok := ce.bound[e.S]; ok {
			return SV{T: t}
		}
		if le, ok := ce.lets[e.S]; ok {
			if ce.depth > 50 {
				panic(ce.errf(e, "let recursion"))
			}
			c2 := *ce
			c2.depth++
			return c2.eval(le)
		}
		if v, ok := ce.lookup(e.S); ok {
			return v
		}
		if e.S == "P" {
			return SV{T: ce.ex.P} // the BN254 scalar field modulus (a program variable named P shadows it)
		}
		if c, ok := ce.ex.prog.Lib.Consts[e.S]; ok {
			return SV{T: c}
		}
		panic(ce.errf(e, "unknown identifier %q", e.S))
	case "old":
		if ce.old == nil {
			panic(ce.errf(e, "old() not available here"))
		}
		o := *ce.old
		o.bound = ce.bound
		o.lets = ce.lets
		return o.eval(e.A[0])
	case "un":
		if e.S == "!" {
			return SV{T: Not(ce.evalBool(e.A[0]))}
		}
		return SV{T: App("-", SInt, ce.evalTerm(e.A[0]))}
	case "cond":
		c := ce.evalBool(e.A[0])
		return mergeVal(c, ce.eval(e.A[1]), ce.eval(e.A[2]))
	case "forall", "exists":
		if e.K == "forall" && len(e.Vars) == 1 {
			if t, ok := ce.expandSyntactic(e); ok {
				return SV{T: t}
			}
		}
		c := ce.child()
		var bs []*Term
		for _, v := range e.Vars {
			freshCtr++
			b := Var(fmt.Sprintf("%s!q%d", v, freshCtr), SInt)
			c.bound[v] = b
			bs = append(bs, b)
		}
		body := c.evalBool(e.A[0])
		if e.K == "forall" && len(bs) == 1 {
			if t := expandBounded(bs[0], body); t != nil {
				return SV{T: t}
			}
		}
		return SV{T: Quant(e.K, bs, body)}
	case "bin":
		return ce.evalBin(e)
	case "sel":
		// api.ok, pkg.const, struct field, ghost field
		if e.A[0].K == "ident" {
			base := e.A[0].S
			if base == "api" && e.S == "ok" {
				if ce.ok == nil {
					panic(ce.errf(e, "api.ok used in a function without api"))
				}
				return SV{T: ce.ok}
			}
			if _, isVar := ce.lookup(base); !isVar {
				if _, isB := ce.bound[base]; !isB {
					if _, isL := ce.lets[base]; !isL {
						name := base + "." + e.S
						if c, ok := ce.ex.prog.Lib.Consts[name]; ok {
							return SV{T: c}
						}
						if f, ok := ce.ex.prog.Lib.Funs[name]; ok && len(f.ArgS) == 0 {
							return SV{T: App(name, f.Res)}
						}
						panic(ce.errf(e, "unknown qualified name %s", name))
					}
				}
			}
		}
		x := ce.eval(e.A[0])
		return ce.ex.fieldOf(ce.st, x, e.S, e)
	case "index":
		x := ce.eval(e.A[0])
		i := ce.evalTerm(e.A[1])
		switch s := x.(type) {
		case *SliceV:
			return s.elemAt(i)
		case SV:
			if s.T.Sort.IsArr() {
				return SV{T: Select(s.T, i)}
			}
		}
		panic(ce.errf(e, "index of non-slice %T", x))
	case "slice":
		x := ce.eval(e.A[0])
		s, ok := x.(*SliceV)
		if !ok {
			panic(ce.errf(e, "slice of non-slice"))
		}
		lo := Zero
		hi := s.Len
		if e.A[1] != nil {
			lo = ce.evalTerm(e.A[1])
		}
		if e.A[2] != nil {
			hi = ce.evalTerm(e.A[2])
		}
		return ce.ex.subslice(nil, s, lo, hi)
	case "call":
		return ce.evalCall(e)
	}
	panic(ce.errf(e, "cannot evaluate"))
}

func (ce *CEnv) evalBin(e *CExpr) Val {
	op := e.S
	switch op {
	case "&&":
		return SV{T: And(ce.evalBool(e.A[0]), ce.evalBool(e.A[1]))}
	case "||":
		return SV{T: Or(ce.evalBool(e.A[0]), ce.evalBool(e.A[1]))}
	case "==>":
		return SV{T: Imp(ce.evalBool(e.A[0]), ce.evalBool(e.A[1]))}
	case "<==>":
		return SV{T: Eq(ce.evalBool(e.A[0]), ce.evalBool(e.A[1]))}
	case "==", "!=":
		a, b := ce.eval(e.A[0]), ce.eval(e.A[1])
		t := ce.ex.valEq(a, b, e)
		if op == "!=" {
			t = Not(t)
		}
		return SV{T: t}
	}
	a, b := ce.evalTerm(e.A[0]), ce.evalTerm(e.A[1])
	switch op {
	case "+":
		return SV{T: Add(a, b)}
	case "-":
		return SV{T: Sub(a, b)}
	case "*":
		return SV{T: Mul(a, b)}
	case "/":
		return SV{T: Div(a, b)}
	case "%":
		return SV{T: Mod(a, b)}
	case "<":
		return SV{T: Lt(a, b)}
	case "<=":
		return SV{T: Le(a, b)}
	case ">":
		return SV{T: Gt(a, b)}
	case ">=":
		return SV{T: Ge(a, b)}
	case "^":
		if a.IsInt() && b.IsInt() {
			return SV{T: BigLit(new(big.Int).Exp(a.Int, b.Int, nil))}
		}
		if a.IsInt() && a.Int.Cmp(big.NewInt(2)) == 0 {
			return SV{T: App("bits.pow2", SInt, b)}
		}
	}
	panic(ce.errf(e, "unsupported operator %s", op))
}

// valEq compares two values structurally.
func (ex *Exec) valEq(a, b Val, e *CExpr) *Term {
	switch x := a.(type) {
	case SV:
		switch y := b.(type) {
		case SV:
			if x.T.Sort != y.T.Sort {
				panic(fmt.Errorf("== on different sorts (%s vs %s) in %v", x.T.Sort, y.T.Sort, e))
			}
			return Eq(x.T, y.T)
		case *ObjV:
			return Eq(x.T, y.ID)
		case *RefV:
			if x.T == Zero {
				return y.nilTerm()
			}
			return ex.valEq(b, a, e)
		case *SliceV:
			if x.T.Sort.IsArr() {
				return Eq(x.T, y.materialize().Arr)
			}
		}
	case *ObjV:
		switch y := b.(type) {
		case SV:
			return Eq(x.ID, y.T)
		case *ObjV:
			return Eq(x.ID, y.ID)
		case *RefV:
			return ex.valEq(b, a, e)
		}
	case *RefV:
		switch y := b.(type) {
		case *ObjV:
			if !x.Nil && x.Cell != nil && len(x.Path) == 0 && ex.cur != nil {
				if o, ok := ex.cur.store[x.Cell].(*ObjV); ok {
					return And(Not(x.nilTerm()), Eq(o.ID, y.ID))
				}
			}
			return False
		case SV:
			if y.T == Zero {
				return x.nilTerm()
			}
			// a pointer to an opaque object compared with an identity term: the pointee's identity
			if !x.Nil && x.Cell != nil && len(x.Path) == 0 && ex.cur != nil {
				if o, ok := ex.cur.store[x.Cell].(*ObjV); ok {
					return Eq(o.ID, y.T)
				}
			}
		case *RefV:
			if x.Nil || y.Nil {
				return And(x.nilTerm(), y.nilTerm())
			}
			same := BoolLit(x.Cell == y.Cell && len(x.Path) == 0 && len(y.Path) == 0)
			return Or(And(x.nilTerm(), y.nilTerm()), And(Not(x.nilTerm()), Not(y.nilTerm()), same))
		}
	case *FuncV:
		// contract-only: two function values are the same if they come from the same literal or name the same function
		if y, ok := b.(*FuncV); ok {
			if x.Lit != nil || y.Lit != nil {
				return BoolLit(x.Lit == y.Lit)
			}
			return BoolLit(x.Name != "" && x.Name == y.Name)
		}
	case *SliceV:
		switch y := b.(type) {
		case *SliceV:
			if x.IsV && y.IsV {
				if len(x.Vec) != len(y.Vec) {
					return False
				}
				var cs []*Term
				for i := range x.Vec {
					cs = append(cs, ex.valEq(x.Vec[i], y.Vec[i], e))
				}
				return And(cs...)
			}
			xm, ym := x.materialize(), y.materialize()
			cs := []*Term{Eq(xm.Len, ym.Len), Eq(xm.Arr, ym.Arr)}
			if xm.Lens != nil && ym.Lens != nil {
				cs = append(cs, Eq(xm.Lens, ym.Lens))
			}
			return And(cs...)
		case SV:
			if y.T.Sort.IsArr() {
				return Eq(x.materialize().Arr, y.T)
			}
			if y.T == Zero {
				// slice == nil: nil-ness of slices is not tracked; a nil slice has length 0
				b := Fresh("isnilslice", SBool)
				if ex.cur != nil {
					ex.cur.assume(Imp(b, Eq(x.Len, Zero)))
				}
				return b
			}
		}
	case *StructV:
		if y, ok := b.(*StructV); ok {
			var cs []*Term
			for _, f := range x.K.Fields {
				cs = append(cs, ex.valEq(x.F[f.Name], y.F[f.Name], e))
			}
			return And(cs...)
		}
	}
	panic(fmt.Errorf("cannot compare %T with %T in %v", a, b, e))
}

func (ce *CEnv) evalCall(e *CExpr) Val {
	fn := e.A[0]
	args := e.A[1:]
	name := ""
	if fn.K == "ident" {
		name = fn.S
	} else if fn.K == "sel" && fn.A[0].K == "ident" {
		name = fn.A[0].S + "." + fn.S
	} else {
		panic(ce.errf(e, "unsupported call"))
	}
	switch name {
	case "len":
		v := ce.eval(args[0])
		if s, ok := v.(*SliceV); ok {
			return SV{T: s.Len}
		}
		panic(ce.errf(e, "len of %T", v))
	case "isbool":
		t := ce.evalTerm(args[0])
		return SV{T: Or(Eq(t, Zero), Eq(t, One))}
	case "inField":
		t := ce.evalTerm(args[0])
		return SV{T: And(Le(Zero, t), Lt(t, ce.ex.P))}
	case "lit0":
		v := ce.eval(args[0]).(SV)
		if v.Lit == nil {
			return SV{T: ce.ex.unknownLit(v)}
		}
		return SV{T: v.Lit}
	case "litarr":
		v := ce.eval(args[0]).(*SliceV).materialize()
		if v.Lit == nil {
			panic(ce.errf(e, "slice has no literal-flag tracking"))
		}
		return SV{T: v.Lit}
	case "lens":
		v := ce.eval(args[0]).(*SliceV).materialize()
		if v.Lens == nil {
			panic(ce.errf(e, "lens() of non-nested slice"))
		}
		return SV{T: v.Lens}
	case "deref":
		v := ce.eval(args[0])
		r, ok := v.(*RefV)
		if !ok {
			panic(ce.errf(e, "deref of %T", v))
		}
		st := ce.st
		if st == nil {
			st = ce.ex.cur
		}
		if r.Nil {
			// dereference of nil inside a specification: an arbitrary value (specs guard such uses with implications)
			return &ObjV{K: &Kind{K: "obj", Name: "nilderef"}, ID: Fresh("nilderef", SInt), Ghost: map[string]Val{}}
		}
		return ce.ex.load(st, r, nil)
	case "origin":
		if ce.atCallSite {
			return SV{T: True}
		}
		// origin(x, "F|G.0"): x is a result of one of the calls to F (last result by default, or result k with F.k) made on this path
		v := ce.eval(args[0])
		st := ce.st
		if st == nil {
			st = ce.ex.cur
		}
		var alts []*Term
		for _, spec := range strings.Split(args[1].S, "|") {
			name, idx := spec, -1
			if d := strings.Index(spec, "."); d >= 0 {
				name = spec[:d]
				fmt.Sscanf(spec[d+1:], "%d", &idx)
			}
			for _, rs := range st.calls[name] {
				if len(rs) == 0 {
					continue
				}
				k := idx
				if k < 0 {
					k = len(rs) - 1
				}
				if k >= len(rs) {
					continue
				}
				func() {
					defer func() { recover() }()
					alts = append(alts, ce.ex.valEq(v, rs[k], e))
				}()
			}
		}
		if os.Getenv("VERIF_DEBUG") != "" {
			fmt.Fprintf(os.Stderr, "origin(%v,%s): calls=%v alts=%v\n", v, args[1].S, st.calls, alts)
		}
		return SV{T: Or(alts...)}
	case "global":
		// the identity of a library's package-level value, e.g. global("binary.BigEndian")
		return SV{T: Var("g."+args[0].S, SInt)}
	case "called":
		if ce.atCallSite {
			return SV{T: True}
		}
		st := ce.st
		if st == nil {
			st = ce.ex.cur
		}
		return SV{T: BoolLit(len(st.calls[args[0].S]) > 0)}
	case "isnil":
		v := ce.eval(args[0])
		return SV{T: ce.ex.valEq(v, SV{T: Zero}, e)}
	case "fresh":
		// fresh(x): x is a freshly allocated object/slice — modelled as true (ownership is tracked by the executor)
		return SV{T: True}
	}
	// spec function
	if f, ok := ce.ex.prog.Lib.Funs[name]; ok {
		if len(args) != len(f.ArgS) {
			panic(ce.errf(e, "%s expects %d args, got %d", name, len(f.ArgS), len(args)))
		}
		var ts []*Term
		for i, a := range args {
			v := ce.eval(a)
			t := ce.ex.valAsSort(v, f.ArgS[i])
			if t == nil {
				panic(ce.errf(e, "arg %d of %s: cannot pass %T as %s", i, name, v, f.ArgS[i]))
			}
			ts = append(ts, t)
		}
		// ground evaluation: a non-recursive spec function applied to literal data is computed by rewriting
		if f.Body != nil && f.Ground {
			allGround := true
			cache := map[*Term]bool{}
			for _, t := range ts {
				if !isGround(t, ce.ex.prog.Lib, cache) {
					allGround = false
					break
				}
			}
			if allGround {
				fuel := 400
				r := ce.ex.prog.Lib.groundEval(App(name, f.Res, ts...), &fuel)
				if r != nil && (r.Op == "int" || r.Op == "bool" || r.Op == "bvlit") {
					return SV{T: r}
				}
			}
		}
		return SV{T: App(name, f.Res, ts...)}
	}
	if strings.Contains(name, ".") {
		panic(ce.errf(e, "unknown spec function %s", name))
	}
	panic(ce.errf(e, "unknown function %s", name))
}

// valAsSort converts a value to a term of the wanted sort.
func (ex *Exec) valAsSort(v Val, s *Sort) *Term {
	if ex.cur != nil {
		if t, ok := ex.adtArg(ex.cur, v, s); ok {
			return t
		}
	}
	switch x := v.(type) {
	case SV:
		if x.T.Sort == s {
			return x.T
		}
	case *ObjV:
		if s == SInt {
			return x.ID
		}
	case *SliceV:
		m := x.materialize()
		if m.Arr != nil && m.Arr.Sort == s {
			return m.Arr
		}
	case *RefV:
		// a pointer to an opaque object stands for the object's identity
		if !x.Nil && x.Cell != nil && ex.cur != nil {
			if pv, ok := ex.cur.store[x.Cell]; ok && len(x.Path) == 0 {
				if o, ok := pv.(*ObjV); ok && s == SInt {
					return o.ID
				}
			}
		}
	}
	return nil
}

func (ex *Exec) unknownLit(v SV) *Term {
	b := Fresh("lit", SBool)
	ex.cur.assume(Imp(b, Eq(v.T, Zero)))
	return b
}

// expandBounded turns  forall b. (L <= b && b < H) ==> P(b)  with literal L, H (H-L <= 64) into a conjunction.
func expandBounded(b *Term, body *Term) *Term {
	if body.Op != "=>" {
		return nil
	}
	ant := body.Args[0]
	var cs []*Term
	if ant.Op == "and" {
		cs = ant.Args
	} else {
		cs = []*Term{ant}
	}
	var lo, hi *big.Int
	var rest []*Term
	for _, c := range cs {
		switch {
		case c.Op == "<=" && c.Args[1] == b && c.Args[0].IsInt():
			lo = c.Args[0].Int
		case c.Op == ">=" && c.Args[0] == b && c.Args[1].IsInt():
			lo = c.Args[1].Int
		case c.Op == "<" && c.Args[0] == b && c.Args[1].IsInt():
			hi = c.Args[1].Int
		case c.Op == "<=" && c.Args[0] == b && c.Args[1].IsInt():
			hi = new(big.Int).Add(c.Args[1].Int, big.NewInt(1))
		default:
			rest = append(rest, c)
		}
	}
	if lo == nil || hi == nil {
		return nil
	}
	n := new(big.Int).Sub(hi, lo)
	if n.Sign() < 0 || n.Cmp(big.NewInt(64)) > 0 {
		return nil
	}
	var out []*Term
	for v := new(big.Int).Set(lo); v.Cmp(hi) < 0; v = new(big.Int).Add(v, big.NewInt(1)) {
		m := map[*Term]*Term{b: BigLit(v)}
		inst := Subst(body.Args[1], m)
		if len(rest) > 0 {
			var rs []*Term
			for _, r := range rest {
				rs = append(rs, Subst(r, m))
			}
			inst = Imp(And(rs...), inst)
		}
		out = append(out, inst)
	}
	return And(out...)
}


// expandSyntactic instantiates  forall v :: L <= v && v < H ==> body  when L and H evaluate to literals (H-L <= 64),
// evaluating the body once per value (so that v can index explicit vectors).
func (ce *CEnv) expandSyntactic(e *CExpr) (*Term, bool) {
	body := e.A[0]
	if body.K != "bin" || body.S != "==>" {
		return nil, false
	}
	v := e.Vars[0]
	var conj []*CExpr
	var flat func(x *CExpr)
	flat = func(x *CExpr) {
		if x.K == "bin" && x.S == "&&" {
			flat(x.A[0])
			flat(x.A[1])
			return
		}
		conj = append(conj, x)
	}
	flat(body.A[0])
	var lo, hi *big.Int
	var rest []*CExpr
	lit := func(x *CExpr) *big.Int {
		defer func() { recover() }()
		t := ce.evalTerm(x)
		if t != nil && t.IsInt() {
			return t.Int
		}
		return nil
	}
	mentions := func(x *CExpr) bool { return strings.Contains(" "+x.String()+" ", v) }
	for _, c := range conj {
		if c.K == "bin" && len(c.A) == 2 {
			l, r := c.A[0], c.A[1]
			switch {
			case c.S == "<=" && r.K == "ident" && r.S == v && !mentions(l):
				if b := lit(l); b != nil {
					lo = b
					continue
				}
			case c.S == "<" && l.K == "ident" && l.S == v && !mentions(r):
				if b := lit(r); b != nil {
					hi = b
					continue
				}
			case c.S == "<=" && l.K == "ident" && l.S == v && !mentions(r):
				if b := lit(r); b != nil {
					hi = new(big.Int).Add(b, big.NewInt(1))
					continue
				}
			}
		}
		rest = append(rest, c)
	}
	if lo == nil || hi == nil {
		return nil, false
	}
	n := new(big.Int).Sub(hi, lo)
	if n.Sign() < 0 || n.Cmp(big.NewInt(64)) > 0 {
		return nil, false
	}
	var out []*Term
	for k := new(big.Int).Set(lo); k.Cmp(hi) < 0; k = new(big.Int).Add(k, big.NewInt(1)) {
		c := ce.child()
		c.bound[v] = BigLit(k)
		inst := c.evalBool(body.A[1])
		if len(rest) > 0 {
			var rs []*Term
			for _, r := range rest {
				rs = append(rs, c.evalBool(r))
			}
			inst = Imp(And(rs...), inst)
		}
		out = append(out, inst)
	}
	return And(out...), true
}
