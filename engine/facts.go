package main

import (
	"regexp"
	"fmt"
	"go/ast"
	"go/types"
	"reflect"
	"sort"
	"strings"

	"golang.org/x/tools/go/types/typeutil"
)

// typeFactObligations decides struct-level facts (gnark visibility tags, field order, field types) from go/types.
func typeFactObligations(prog *Program, ct *Contract) []*Obligation {
	mk := func(name string, ok bool, note string) *Obligation {
		b := ok
		return &Obligation{Name: shortName(ct.Pkg) + ".type:" + ct.Name + "/" + name, Prop: ct.Props, Func: ct.Key, Kind: "type-fact", Goal: BoolLit(ok), Static: &b, Note: note}
	}
	pkg := prog.ByPath[ct.Pkg]
	if pkg == nil {
		return []*Obligation{mk("exists", false, "package not loaded")}
	}
	obj := pkg.Types.Scope().Lookup(ct.Name)
	if obj == nil {
		return []*Obligation{mk("exists", false, "type not found")}
	}
	st, ok := obj.Type().Underlying().(*types.Struct)
	if !ok {
		return []*Obligation{mk("exists", false, "not a struct")}
	}
	var out []*Obligation
	var pub []string
	for i := 0; i < st.NumFields(); i++ {
		tag := reflect.StructTag(st.Tag(i)).Get("gnark")
		parts := strings.Split(tag, ",")
		for _, p := range parts[1:] {
			if strings.TrimSpace(p) == "public" {
				pub = append(pub, st.Field(i).Name())
			}
		}
	}
	if ct.Public != nil {
		want := append([]string{}, ct.Public...)
		sort.Strings(want)
		got := append([]string{}, pub...)
		sort.Strings(got)
		out = append(out, mk("public-fields", fmt.Sprint(want) == fmt.Sprint(got), fmt.Sprintf("fields tagged ,public: %v, required exactly %v", got, want)))
	}
	if ct.First != "" {
		out = append(out, mk("first-field", st.NumFields() > 0 && st.Field(0).Name() == ct.First, "first field must be "+ct.First))
	}
	var fns []string
	for f := range ct.FieldTypes {
		fns = append(fns, f)
	}
	sort.Strings(fns)
	for _, f := range fns {
		found := false
		for i := 0; i < st.NumFields(); i++ {
			if st.Field(i).Name() == f {
				got := types.TypeString(st.Field(i).Type(), func(p *types.Package) string { return p.Name() })
				out = append(out, mk("field-type("+f+")", got == ct.FieldTypes[f], fmt.Sprintf("field %s has type %s, required %s", f, got, ct.FieldTypes[f])))
				found = true
			}
		}
		if !found {
			out = append(out, mk("field-type("+f+")", false, "field "+f+" not found"))
		}
	}
	return out
}

// callGraph: static calls between repository functions (function literals are attributed to the enclosing function).
func (p *Program) callees(fi *FuncInfo) []string {
	var out []string
	seen := map[string]bool{}
	ast.Inspect(fi.Body, func(n ast.Node) bool {
		call, ok := n.(*ast.CallExpr)
		if !ok {
			return true
		}
		fn, _ := typeutil.Callee(fi.Pkg.TypesInfo, call).(*types.Func)
		if fn == nil {
			return true
		}
		k := funcKey(fn)
		// calls through repository interfaces may reach any implementation with that method name
		if sig, ok := fn.Type().(*types.Signature); ok && sig.Recv() != nil {
			if _, isIface := sig.Recv().Type().Underlying().(*types.Interface); isIface && strings.HasPrefix(k, repoPrefix) {
				for key := range p.Funcs {
					if strings.HasSuffix(key, "."+fn.Name()) && !seen[key] {
						seen[key] = true
						out = append(out, key)
					}
				}
			}
		}
		if !seen[k] {
			seen[k] = true
			out = append(out, k)
		}
		return true
	})
	sort.Strings(out)
	return out
}

func unreachableObligation(prog *Program, fi *FuncInfo, ct *Contract, target string) *Obligation {
	// resolve target: suffix match on function keys
	visited := map[string]bool{}
	var path []string
	var found []string
	var dfs func(k string, trail []string) bool
	dfs = func(k string, trail []string) bool {
		if visited[k] {
			return false
		}
		visited[k] = true
		if strings.HasSuffix(k, target) {
			found = append(append([]string{}, trail...), k)
			return true
		}
		f := prog.Funcs[k]
		if f == nil {
			return false
		}
		for _, c := range prog.callees(f) {
			if dfs(c, append(trail, k)) {
				return true
			}
		}
		return false
	}
	_ = path
	reach := dfs(fi.Key, nil)
	ok := !reach
	note := "no call path through repository code"
	if reach {
		note = "call path: " + strings.Join(found, " -> ")
	}
	return &Obligation{Name: shortName(fi.Key) + "/unreachable(" + target + ")", Prop: ct.Props, Func: fi.Key, Kind: "call-graph", Goal: BoolLit(ok), Static: &ok, Note: note}
}


// compileCoversDefine: the Define method of a circuit type is called by gnark, not by repository code; its
// preconditions are discharged where the circuit is handed to the compiler, by the assumed contract
// frontend.Compile#*<pkg>.<Type>. This static obligation checks that every `requires` of Define (other than declared
// `when` domain restrictions) occurs, with the receiver renamed, among the requires of that Compile contract.
func compileCoversDefine(prog *Program, ct *Contract, key string) []*Obligation {
	if !strings.HasSuffix(key, ".Define") {
		return nil
	}
	fi := prog.Funcs[key]
	if fi == nil || fi.Sig.Recv() == nil {
		return nil
	}
	recv := fi.Sig.Recv().Name()
	typ := strings.TrimSuffix(key, ".Define") // pkgpath.Type
	slash := strings.LastIndex(typ, "/")
	short := typ[slash+1:] // pkg.Type
	var cc *Contract
	for k, c := range prog.Contracts.ByKey {
		if c.Extern && strings.Contains(k, "frontend.Compile#") && strings.HasSuffix(k, short) {
			cc = c
		}
	}
	norm := func(t, r string) string {
		t = strings.Join(strings.Fields(t), " ")
		if r != "" {
			t = regexp.MustCompile(`\b`+regexp.QuoteMeta(r)+`\.`).ReplaceAllString(t, "§.")
		}
		return t
	}
	when := map[string]bool{}
	for _, w := range ct.When {
		when[norm(w, recv)] = true
	}
	var out []*Obligation
	for i, rq := range ct.Requires {
		t := norm(rq.Text, recv)
		if when[t] {
			continue
		}
		ok := false
		if cc != nil {
			for _, cr := range cc.Requires {
				for _, pn := range cc.Params {
					if norm(cr.Text, pn) == t {
						ok = true
					}
				}
			}
		}
		b := ok
		out = append(out, &Obligation{Name: shortName(key) + fmt.Sprintf("/pre-covered#%d", i+1), Prop: ct.Props, Func: key, Kind: "pre-covered",
			Goal: BoolLit(ok), Static: &b, Note: "precondition of Define must be required by the assumed frontend.Compile contract for this circuit type: " + rq.Text})
	}
	return out
}


// implementsObligations: the contract of an interface method is assumed at dynamic calls; it is justified only if
// every type of the repository that implements the interface verifies its method against that same contract
// (`implements <key>` copies the clauses). Decided from go/types.
func implementsObligations(prog *Program, ct *Contract) []*Obligation {
	// key = <pkgpath>.<Iface>.<method>
	li := strings.LastIndex(ct.Key, ".")
	method := ct.Key[li+1:]
	tq := ct.Key[:li]
	ti := strings.LastIndex(tq, ".")
	pkg := prog.ByPath[tq[:ti]]
	mk := func(name string, ok bool, note string) *Obligation {
		b := ok
		return &Obligation{Name: shortName(ct.Key) + "/" + name, Prop: ct.Props, Func: ct.Key, Kind: "implements", Goal: BoolLit(ok), Static: &b, Note: note}
	}
	if pkg == nil {
		return []*Obligation{mk("interface-exists", false, "package not loaded")}
	}
	obj := pkg.Types.Scope().Lookup(tq[ti+1:])
	if obj == nil {
		return []*Obligation{mk("interface-exists", false, "interface type not found")}
	}
	iface, ok := obj.Type().Underlying().(*types.Interface)
	if !ok {
		return []*Obligation{mk("interface-exists", false, "not an interface")}
	}
	var out []*Obligation
	n := 0
	for _, p := range prog.Pkgs {
		sc := p.Types.Scope()
		for _, name := range sc.Names() {
			tn, ok := sc.Lookup(name).(*types.TypeName)
			if !ok || tn.IsAlias() {
				continue
			}
			if _, isI := tn.Type().Underlying().(*types.Interface); isI {
				continue
			}
			var recvT types.Type
			if types.Implements(tn.Type(), iface) {
				recvT = tn.Type()
			} else if types.Implements(types.NewPointer(tn.Type()), iface) {
				recvT = types.NewPointer(tn.Type())
			} else {
				continue
			}
			n++
			sel := types.NewMethodSet(recvT).Lookup(p.Types, method)
			if sel == nil {
				out = append(out, mk("impl:"+name, false, "method not found"))
				continue
			}
			key := funcKey(sel.Obj().(*types.Func))
			ic := prog.Contracts.ByKey[key]
			ok2 := ic != nil && ic.Implements == ct.Key && !ic.Trusted
			out = append(out, mk("impl:"+name, ok2, "every implementation must be verified against the interface contract: "+key))
		}
	}
	out = append(out, mk("has-implementations", n > 0, "no implementation found"))
	return out
}
