package main

import (
	"fmt"
	"os"
	"go/ast"
	"go/constant"
	"go/token"
	"go/types"
	"math/big"
	"sort"
	"strings"
)

// ---------- state ----------

const (
	ctlNormal = iota
	ctlReturn
	ctlBreak
	ctlContinue
	ctlPanic
)

type State struct {
	store map[*Cell]Val
	pc    []*Term
	ok    *Term
	ctl   int
	ret   []Val
	calls map[string][][]Val // results of the calls made so far on this path, by callee name (for origin())
	defers []*ast.DeferStmt
	decs  map[*Term]bool // path-condition entries that are branch decisions (if / switch), as opposed to assumed facts
	frozen map[*Cell]bool // structs whose address was stored in an adt interface: immutable from then on
}

func unionFrozen(sts ...*State) map[*Cell]bool {
	var out map[*Cell]bool
	for _, s := range sts {
		if len(s.frozen) == 0 {
			continue
		}
		if out == nil {
			out = map[*Cell]bool{}
		}
		for k := range s.frozen {
			out[k] = true
		}
	}
	return out
}

func (s *State) freeze(c *Cell) {
	n := make(map[*Cell]bool, len(s.frozen)+1)
	for k := range s.frozen {
		n[k] = true
	}
	n[c] = true
	s.frozen = n
}

// decide records a branch decision: like assume, and remembers which entries are decisions (used to merge the
// paths of an unrolled loop body at the end of each iteration).
func (s *State) decide(t *Term) {
	mark := len(s.pc)
	s.assume(t)
	if len(s.pc) > mark {
		nd := make(map[*Term]bool, len(s.decs)+len(s.pc)-mark)
		for k := range s.decs {
			nd[k] = true
		}
		for _, d := range s.pc[mark:] {
			nd[d] = true
		}
		s.decs = nd
	}
}

// mergeMany joins the states that left one iteration of an unrolled loop body (normal end or continue).
// They all extend the same prefix pc[:basePC]; their branch decisions are mutually exclusive, so the joined state
// is an if-then-else over the decisions. Returns nil when a state has no recorded decision (then nothing is merged).
func (ex *Exec) mergeMany(sts []*State, basePC int) *State {
	if len(sts) < 2 {
		return nil
	}
	guards := make([]*Term, len(sts))
	facts := make([][]*Term, len(sts))
	for i, s := range sts {
		if len(s.pc) < basePC || s.ctl != ctlNormal || len(s.defers) != len(sts[0].defers) {
			return nil
		}
		var ds []*Term
		for _, t := range s.pc[basePC:] {
			if s.decs[t] {
				ds = append(ds, t)
			} else {
				facts[i] = append(facts[i], t)
			}
		}
		if len(ds) == 0 {
			return nil
		}
		guards[i] = And(ds...)
	}
	m := &State{store: map[*Cell]Val{}, ctl: ctlNormal, defers: sts[0].defers, decs: sts[0].decs, frozen: unionFrozen(sts...)}
	m.pc = append(m.pc, sts[0].pc[:basePC]...)
	if o := Or(guards...); !o.IsTrue() {
		m.pc = append(m.pc, o)
	}
	for i := range sts {
		if len(facts[i]) > 0 {
			m.pc = append(m.pc, Imp(guards[i], And(facts[i]...)))
		}
	}
	last := len(sts) - 1
	for k, v0 := range sts[0].store {
		same, all := true, true
		for _, s := range sts[1:] {
			v, ok := s.store[k]
			if !ok {
				all = false
				break
			}
			if !sameVal(v, v0) {
				same = false
			}
		}
		if !all {
			continue
		}
		if same {
			m.store[k] = v0
			continue
		}
		v := sts[last].store[k]
		for i := last - 1; i >= 0; i-- {
			v = mergeVal(guards[i], sts[i].store[k], v)
		}
		m.store[k] = v
	}
	if sts[0].ok != nil {
		v := sts[last].ok
		for i := last - 1; i >= 0; i-- {
			v = Ite(guards[i], sts[i].ok, v)
		}
		m.ok = v
	}
	for _, src := range sts {
		for k, v := range src.calls {
			for _, r := range v {
				dup := false
				for _, e := range m.calls[k] {
					if len(e) > 0 && len(r) > 0 && sameVal(e[len(e)-1], r[len(r)-1]) && sameVal(e[0], r[0]) {
						dup = true
					}
				}
				if !dup {
					m.recordCall(k, r)
				}
			}
		}
	}
	return m
}

func (s *State) clone() *State {
	n := &State{store: make(map[*Cell]Val, len(s.store)), pc: append([]*Term{}, s.pc...), ok: s.ok, ctl: s.ctl, ret: s.ret,
		defers: append([]*ast.DeferStmt{}, s.defers...), decs: s.decs, frozen: s.frozen}
	for k, v := range s.store {
		n.store[k] = v
	}
	if s.calls != nil {
		n.calls = make(map[string][][]Val, len(s.calls))
		for k, v := range s.calls {
			n.calls[k] = append([][]Val{}, v...)
		}
	}
	return n
}

func (s *State) recordCall(name string, results []Val) {
	if s.calls == nil {
		s.calls = map[string][][]Val{}
	}
	s.calls[name] = append(s.calls[name], results)
}

func (s *State) assume(t *Term) {
	if t.IsTrue() {
		return
	}
	if t.Op == "and" {
		for _, a := range t.Args {
			s.assume(a)
		}
		return
	}
	s.pc = append(s.pc, t)
}

// ---------- executor ----------

type Exec struct {
	prog    *Program
	fi      *FuncInfo
	info    *types.Info
	ct      *Contract
	mode    string
	cells   map[types.Object]*Cell
	entry   *State
	cur     *State
	obls    []*Obligation
	loopOrd int
	siteOrd map[string]int
	lemmas  []string
	reveal  map[string]bool
	P       *Term
	notes   map[string]bool // unmodelled/trusted things encountered
	apiObj  types.Object
	lets    map[string]*CExpr
	fnName  string
	resultNames []string
	resultKinds []*Kind
	failed  []string
	scopePos token.Pos
	shapes  map[string][]int
	paramRoot map[*Cell]paramRootInfo
	inlineDepth int
	caseIdx int // 0: no case split; k>0: k-th case; -1: exhaustiveness obligation only
	selfNode   map[*Cell]*Term // receivers that are datatype values (adt.go)
	ghostCells map[string]*Cell // contract-visible ghost variables (e.g. `iter` of a range loop without key)
	rootFields map[types.Object]map[string]bool
	keepRootFields bool
	nullableResults bool // pointer values created while this is set may be nil (results of calls)
	assertExtra map[string]Val
}

func (ex *Exec) note(f string, a ...interface{}) {
	ex.notes[fmt.Sprintf(f, a...)] = true
}

func (ex *Exec) pos(n ast.Node) string {
	p := ex.prog.Fset.Position(n.Pos())
	return fmt.Sprintf("%s:%d", strings.TrimPrefix(p.Filename, ex.prog.RepoDir+"/"), p.Line)
}

func (ex *Exec) site(kind string) string {
	ex.siteOrd[kind]++
	return fmt.Sprintf("%s#%d", kind, ex.siteOrd[kind])
}

// oblige records a proof obligation pc ⊢ goal.
func (ex *Exec) oblige(st *State, kind, name string, goal *Term, node ast.Node) {
	o := &Obligation{
		Name: ex.fnName + "/" + name + ex.modeSuffix(), Prop: ex.ct.Props, Func: ex.fi.Key, Kind: kind, Mode: ex.mode,
		Assumes: append([]*Term{}, st.pc...), Goal: goal, Reveal: ex.reveal, Lemmas: ex.lemmas,
	}
	if node != nil {
		o.Pos = ex.pos(node)
	}
	if goal.IsTrue() {
		t := true
		o.Static = &t
		o.Assumes = nil
	} else {
		for _, a := range st.pc {
			if a == goal {
				t := true
				o.Static = &t
				o.Assumes = nil
				o.Note = "goal is one of the assumptions at this point"
				break
			}
		}
	}
	ex.obls = append(ex.obls, o)
}

// staticTrue records an obligation that the generator itself decides (once per site and mode).
func (ex *Exec) staticTrue(kind, name, why string, node ast.Node) {
	full := ex.fnName + "/" + name + ex.modeSuffix()
	for _, o := range ex.obls {
		if o.Name == full {
			return
		}
	}
	t := true
	o := &Obligation{Name: full, Prop: ex.ct.Props, Func: ex.fi.Key, Kind: kind, Mode: ex.mode, Goal: True, Static: &t, Note: why}
	if node != nil {
		o.Pos = ex.pos(node)
	}
	ex.obls = append(ex.obls, o)
}

// pureCond: the operands of a loop condition can be evaluated a second time without effect (no calls but len/cap)
func pureCond(e ast.Expr) bool {
	pure := true
	ast.Inspect(e, func(n ast.Node) bool {
		if c, ok := n.(*ast.CallExpr); ok {
			if id, ok := c.Fun.(*ast.Ident); !ok || (id.Name != "len" && id.Name != "cap" && id.Name != "int" && id.Name != "uint32" && id.Name != "uint64" && id.Name != "int64") {
				pure = false
			}
		}
		if u, ok := n.(*ast.UnaryExpr); ok && u.Op == token.ARROW {
			pure = false
		}
		return pure
	})
	return pure
}

func (ex *Exec) modeSuffix() string {
	if ex.mode == "" {
		return ""
	}
	return "[" + ex.mode + "]"
}

func (ex *Exec) fail(kind, name, msg string, node ast.Node) {
	f := false
	o := &Obligation{Name: ex.fnName + "/" + name + ex.modeSuffix(), Prop: ex.ct.Props, Func: ex.fi.Key, Kind: kind, Mode: ex.mode, Goal: False, Static: &f, Note: msg}
	if node != nil {
		o.Pos = ex.pos(node)
	}
	ex.obls = append(ex.obls, o)
}

func (ex *Exec) cellOf(obj types.Object) *Cell {
	if c, ok := ex.cells[obj]; ok {
		return c
	}
	c := newCell(obj.Name())
	ex.cells[obj] = c
	return c
}

// ---------- fresh symbolic values ----------

func (ex *Exec) rangeInv(k *Kind, t *Term) *Term {
	if ex.ct != nil && ex.ct.Opts["no-range-invariants"] != "" && k.K == "var" && t.Op == "select" {
		// element-wise field-range facts about arrays of variables are not needed by bit-vector level proofs
		return True
	}
	switch k.K {
	case "var":
		return And(Le(Zero, t), Lt(t, ex.P))
	case "int":
		if k.Lo != "" {
			lo, _ := new(big.Int).SetString(k.Lo, 10)
			hi, _ := new(big.Int).SetString(k.Hi, 10)
			return And(Le(BigLit(lo), t), Le(t, BigLit(hi)))
		}
	}
	return True
}

// freshVal creates an unconstrained symbolic value of the kind; invariants are assumed in st.
func (ex *Exec) freshVal(st *State, k *Kind, hint string) Val {
	switch k.K {
	case "int", "big", "err", "func", "float", "str", "bool", "var":
		t := Fresh(hint, k.sortOf())
		st.assume(ex.rangeInv(k, t))
		return SV{T: t}
	case "obj":
		g := map[string]Val{}
		for _, d := range ghostDecls[k.Name] {
			g[d.Name] = ex.freshVal(st, ghostKind(d.Kind), hint+"."+d.Name)
		}
		if a := adtOf[k.Name]; a != nil {
			return &ObjV{K: k, ID: Fresh(hint, a.Sort), Ghost: g}
		}
		return &ObjV{K: k, ID: Fresh(hint, SInt), Ghost: g}
	case "slice":
		if k.Fixed {
			vs := make([]Val, k.N)
			for i := range vs {
				vs[i] = ex.freshVal(st, k.Elem, fmt.Sprintf("%s_%d", hint, i))
			}
			return mkVec(k.Elem, vs)
		}
		s := &SliceV{Elem: k.Elem, Len: Fresh(hint+".len", SInt), Tag: newTag()}
		st.assume(Ge(s.Len, Zero))
		st.assume(Le(s.Len, maxSliceLen))
		switch k.Elem.K {
		case "slice":
			if k.Elem.Elem.K == "slice" {
				// placeholder: must be given explicit dimensions by a shape clause before it is used
				return &SliceV{Elem: k.Elem, Len: Fresh(hint+".len", SInt), Tag: newTag()}
			}
			s.Arr = Fresh(hint, SArr(SInt, SArr(SInt, k.Elem.Elem.sortOf())))
			s.Lens = Fresh(hint+".lens", SArrInt)
			i := Var(fmt.Sprintf("i!q%d", nextQ()), SInt)
			st.assume(Quant("forall", []*Term{i}, And(Ge(Select(s.Lens, i), Zero), Le(Select(s.Lens, i), maxSliceLen)), []*Term{Select(s.Lens, i)}))
			if inv := ex.rangeInv(k.Elem.Elem, Zero); !inv.IsTrue() || k.Elem.Elem.K == "var" {
				j := Var(fmt.Sprintf("j!q%d", nextQ()), SInt)
				e := Select(Select(s.Arr, i), j)
				st.assume(Quant("forall", []*Term{i, j}, ex.rangeInv(k.Elem.Elem, e), []*Term{e}))
			}
		case "struct":
			s.FieldArr = map[string]*Term{}
			for _, fd := range k.Elem.Fields {
				if !fd.K.isScalar() {
					panic(unsupported("fresh symbolic slice of structs with non-scalar field %s.%s", hint, fd.Name))
				}
				s.FieldArr[fd.Name] = Fresh(hint+"."+fd.Name, SArr(SInt, fd.K.sortOf()))
			}
		default:
			s.Arr = Fresh(hint, SArr(SInt, k.Elem.sortOf()))
			i := Var(fmt.Sprintf("i!q%d", nextQ()), SInt)
			e := Select(s.Arr, i)
			if inv := ex.rangeInv(k.Elem, e); !inv.IsTrue() {
				st.assume(Quant("forall", []*Term{i}, inv, []*Term{e}))
			}
		}
		return s
	case "struct":
		f := map[string]Val{}
		for _, fd := range k.Fields {
			f[fd.Name] = ex.freshVal(st, fd.K, hint+"."+fd.Name)
		}
		return &StructV{K: k, F: f}
	case "ptr":
		c := newCell("*" + hint)
		st.store[c] = ex.freshVal(st, k.Elem, hint)
		if ex.nullableResults {
			return &RefV{Cell: c, NilT: Fresh(hint+".isnil", SBool)}
		}
		return &RefV{Cell: c}
	case "tuple":
		var vs []Val
		for i, fd := range k.Fields {
			vs = append(vs, ex.freshVal(st, fd.K, fmt.Sprintf("%s_%d", hint, i)))
		}
		return &TupleV{vs}
	case "unit", "nil":
		return SV{T: Zero}
	}
	panic(unsupported("freshVal of kind %s", k))
}

func nextQ() int { freshCtr++; return freshCtr }

// freshShape creates an explicit nested vector of fresh variables.
func (ex *Exec) freshShape(st *State, dims []int, elem *Kind, hint string) Val {
	if len(dims) == 0 {
		return ex.freshVal(st, elem, hint)
	}
	vs := make([]Val, dims[0])
	ek := elem
	for range dims[1:] {
		ek = &Kind{K: "slice", Elem: ek}
	}
	for i := range vs {
		vs[i] = ex.freshShape(st, dims[1:], elem, fmt.Sprintf("%s_%d", hint, i))
	}
	return mkVec(ek, vs)
}

// ---------- load / store ----------

func (ex *Exec) load(st *State, r *RefV, node ast.Node) Val {
	if r.Nil {
		ex.fail("nil-deref", ex.site("nil-deref"), "dereference of nil pointer", node)
		panic(abortPath{})
	}
	if r.NilT != nil && node != nil {
		g := Not(r.NilT)
		if !g.IsTrue() {
			ex.oblige(st, "nil-deref", ex.site("nil-deref"), g, node)
			st.assume(g)
		}
	}
	v, ok := st.store[r.Cell]
	if !ok {
		panic(unsupported("load of uninitialised cell %s", r.Cell.name))
	}
	for _, a := range r.Path {
		v = ex.access(st, v, a, node)
	}
	return v
}

func (ex *Exec) access(st *State, v Val, a Acc, node ast.Node) Val {
	if a.Idx != nil {
		s, ok := v.(*SliceV)
		if !ok {
			panic(unsupported("index into %T", v))
		}
		return s.elemAt(a.Idx)
	}
	return ex.fieldOf(st, v, a.Field, nil)
}

func (ex *Exec) fieldOf(st *State, v Val, f string, e *CExpr) Val {
	switch x := v.(type) {
	case *StructV:
		if fv, ok := x.F[f]; ok {
			return fv
		}
		panic(fmt.Errorf("no field %s in %s", f, x.K.Name))
	case *RefV:
		s := st
		if s == nil {
			s = ex.cur
		}
		return ex.fieldOf(st, ex.load(s, x, nil), f, e)
	case *ObjV:
		if gv, ok := x.Ghost[f]; ok {
			return gv
		}
		// lazily materialised ghost field: an uninterpreted function of the object identity
		sort := SInt
		if strings.HasPrefix(f, "is") || strings.HasPrefix(f, "has") || strings.HasPrefix(f, "wrote") {
			sort = SBool
		}
		return SV{T: App("ghost."+f, sort, x.ID)}
	}
	panic(fmt.Errorf("field %s of %T", f, v))
}

func (ex *Exec) update(v Val, path []Acc, nv Val) Val {
	if len(path) == 0 {
		return nv
	}
	a := path[0]
	if a.Idx != nil {
		s, ok := v.(*SliceV)
		if !ok {
			panic(unsupported("index-store into %T", v))
		}
		inner := nv
		if len(path) > 1 {
			inner = ex.update(s.elemAt(a.Idx), path[1:], nv)
		}
		return s.setElem(a.Idx, inner)
	}
	switch x := v.(type) {
	case *StructV:
		nf := make(map[string]Val, len(x.F))
		for k, fv := range x.F {
			nf[k] = fv
		}
		nf[a.Field] = ex.update(x.F[a.Field], path[1:], nv)
		return &StructV{K: x.K, F: nf}
	case *ObjV:
		ng := make(map[string]Val, len(x.Ghost)+1)
		for k, gv := range x.Ghost {
			ng[k] = gv
		}
		ng[a.Field] = nv
		return &ObjV{K: x.K, ID: x.ID, Ghost: ng}
	}
	panic(unsupported("field-store into %T", v))
}

func (ex *Exec) storeRef(st *State, r *RefV, nv Val, node ast.Node) {
	if r.Nil {
		ex.fail("nil-deref", ex.site("nil-deref"), "store through nil pointer", node)
		panic(abortPath{})
	}
	if r.NilT != nil {
		g := Not(r.NilT)
		if !g.IsTrue() {
			ex.oblige(st, "nil-deref", ex.site("nil-deref"), g, node)
			st.assume(g)
		}
	}
	ex.frameCheck(r, false, node)
	if st.frozen[r.Cell] {
		ex.fail("immutable", ex.site("immutable"), "store to "+r.Cell.name+" after its address was stored in an interface modelled as an immutable datatype value", node)
	}
	old := st.store[r.Cell]
	// alias propagation for in-place slice element stores
	var aliasTag int
	var oldSlice *SliceV
	var prefix []Acc
	for i, a := range r.Path {
		if a.Idx != nil {
			cur := old
			for _, b := range r.Path[:i] {
				cur = ex.access(st, cur, b, node)
			}
			if s, ok := cur.(*SliceV); ok && oldSlice == nil {
				oldSlice = s
				aliasTag = s.Tag
				prefix = r.Path[:i]
			}
		}
	}
	st.store[r.Cell] = ex.update(old, r.Path, nv)
	if oldSlice != nil {
		if aliasTag < 0 {
			ex.fail("ownership", ex.site("ownership"), "in-place store through a sub-slice view (aliasing not modelled)", node)
			return
		}
		if aliasTag > 0 {
			cur := st.store[r.Cell]
			for _, b := range prefix {
				cur = ex.access(st, cur, b, node)
			}
			ex.propagateAlias(st, oldSlice, cur.(*SliceV), r.Cell, prefix, node)
		}
	}
}

// propagateAlias updates every other variable/field holding the same backing array.
func (ex *Exec) propagateAlias(st *State, oldS, newS *SliceV, except *Cell, exceptPath []Acc, node ast.Node) {
	for c, v := range st.store {
		nv := ex.replaceAliased(v, oldS, newS, c == except, exceptPath, 0, node)
		if nv != nil {
			st.store[c] = nv
		}
	}
}

func (ex *Exec) replaceAliased(v Val, oldS, newS *SliceV, isExcept bool, exceptPath []Acc, depth int, node ast.Node) Val {
	switch x := v.(type) {
	case *SliceV:
		if x.Tag == oldS.Tag && x != newS {
			if isExcept && len(exceptPath) == depth {
				return nil
			}
			if sameVal(x, oldS) {
				return newS
			}
			if sameVal(x, newS) {
				return nil
			}
			ex.fail("ownership", ex.site("ownership"), "in-place store to a slice that is aliased by a different view", node)
		}
		return nil
	case *StructV:
		var nf map[string]Val
		for k, fv := range x.F {
			ep := exceptPath
			ie := isExcept && len(ep) > depth && ep[depth].Field == k
			r := ex.replaceAliased(fv, oldS, newS, ie, exceptPath, depth+1, node)
			if r != nil {
				if nf == nil {
					nf = make(map[string]Val, len(x.F))
					for kk, vv := range x.F {
						nf[kk] = vv
					}
				}
				nf[k] = r
			}
		}
		if nf != nil {
			return &StructV{K: x.K, F: nf}
		}
	}
	return nil
}

type abortPath struct{}

// ---------- contract environment over the current state ----------

func (ex *Exec) nameLookup(st *State, pos token.Pos) func(string) (Val, bool) {
	return func(name string) (Val, bool) {
		if c, ok := ex.ghostCells[name]; ok {
			if v, ok := st.store[c]; ok {
				return v, true
			}
		}
		// a snapshot variable whose anchor has not been passed on this path: an arbitrary value
		for _, a := range ex.ct.Asserts {
			if a.Kind == "snap" && a.Var == name {
				return SV{T: Fresh("unset."+name, SInt)}, true
			}
		}
		// innermost scope at pos
		scope := ex.fi.Pkg.Types.Scope().Innermost(pos)
		if scope == nil {
			scope = ex.fi.Pkg.Types.Scope()
		}
		_, obj := scope.LookupParent(name, pos)
		if obj == nil {
			// a local declared later in the enclosing blocks: visible to specifications with its zero value
			_, obj = scope.LookupParent(name, token.NoPos)
		}
		if obj == nil {
			return nil, false
		}
		switch o := obj.(type) {
		case *types.Var:
			if c, ok := ex.cells[o]; ok {
				if v, ok := st.store[c]; ok {
					return v, true
				}
			}
			if o.Parent() == o.Pkg().Scope() {
				return ex.globalVar(st, o), true
			}
			if o.Pos() < ex.fi.Body.Pos() || o.Pos() > ex.fi.Body.End() {
				// captured variable of an enclosing function: an arbitrary (but fixed) value
				c := ex.cellOf(o)
				v := ex.freshVal(st, kindOf(o.Type()), o.Name())
				st.store[c] = v
				if ex.entry != nil {
					if _, ok := ex.entry.store[c]; !ok {
						ex.entry.store[c] = v
					}
				}
				return v, true
			}
			// a local that is not (yet) defined on this path: specifications see its zero value
			return zeroVal(kindOf(o.Type())), true
		case *types.Const:
			return constVal(o.Val(), o.Type()), true
		}
		return nil, false
	}
}

func constVal(v constant.Value, t types.Type) Val {
	switch v.Kind() {
	case constant.Bool:
		return SV{T: BoolLit(constant.BoolVal(v))}
	case constant.String:
		return SV{T: StrLit(constant.StringVal(v))}
	case constant.Int:
		bi, ok := new(big.Int).SetString(v.ExactString(), 10)
		if !ok {
			panic(unsupported("constant %s", v))
		}
		return SV{T: BigLit(bi)}
	}
	panic(unsupported("constant kind %v", v.Kind()))
}

func (ex *Exec) cenv(st *State, pos token.Pos) *CEnv {
	ce := &CEnv{ex: ex, st: st, lookup: ex.nameLookup(st, pos), ok: st.ok, bound: map[string]*Term{}, lets: ex.lets}
	if ex.entry != nil {
		ce.ok0 = ex.entry.ok
		ce.old = &CEnv{ex: ex, st: ex.entry, lookup: ex.nameLookup(ex.entry, ex.fi.Body.Lbrace+1), ok: ex.entry.ok, ok0: ex.entry.ok, bound: map[string]*Term{}, lets: ex.lets}
	}
	return ce
}

// ---------- verifying one function in one mode ----------

func parseShape(s string) (dims []int, elem string, sym bool, err error) {
	s = strings.TrimSpace(s)
	for strings.HasPrefix(s, "[") {
		j := strings.Index(s, "]")
		if j < 0 {
			return nil, "", false, fmt.Errorf("bad shape %q", s)
		}
		inner := s[1:j]
		if inner == "" {
			dims = append(dims, -1)
			sym = true
		} else {
			var n int
			if _, e := fmt.Sscanf(inner, "%d", &n); e != nil {
				return nil, "", false, fmt.Errorf("bad shape dim %q", inner)
			}
			dims = append(dims, n)
		}
		s = s[j+1:]
	}
	return dims, strings.TrimSpace(s), sym, nil
}

var varKind = &Kind{K: "var"}

func (ex *Exec) run() (err error) {
	defer func() {
		if r := recover(); r != nil {
			switch e := r.(type) {
			case unsupportedErr:
				err = e
			case error:
				if os.Getenv("VERIF_DEBUG") != "" {
					panic(r)
				}
				err = e
			default:
				panic(r)
			}
		}
	}()
	fd := ex.fi
	st := &State{store: map[*Cell]Val{}}
	ex.cur = st
	sig := ex.fi.Sig
	bindParam := func(v *types.Var) {
		if v == nil || v.Name() == "" || v.Name() == "_" {
			return
		}
		c := ex.cellOf(v)
		if strings.HasSuffix(v.Type().String(), "gnark/frontend.API") {
			ex.apiObj = v
			st.store[c] = &ObjV{K: kindOf(v.Type()), ID: Var("api", SInt), Ghost: map[string]Val{}}
			return
		}
		val := ex.freshVal(st, kindOf(v.Type()), v.Name())
		st.store[c] = val
		ex.paramRoot[c] = paramRootInfo{name: v.Name()}
		if r, ok := val.(*RefV); ok && !r.Nil {
			ex.paramRoot[r.Cell] = paramRootInfo{name: v.Name(), pointee: true}
		}
	}
	bindParam(sig.Recv())
	if sig.Recv() != nil {
		ex.unboxReceiver(st, sig.Recv())
	}
	for i := 0; i < sig.Params().Len(); i++ {
		bindParam(sig.Params().At(i))
	}
	if ex.apiObj != nil {
		st.ok = Var("ok0", SBool)
	}
	// named results
	for i := 0; i < sig.Results().Len(); i++ {
		r := sig.Results().At(i)
		ex.resultKinds = append(ex.resultKinds, kindOf(r.Type()))
		if r.Name() != "" && r.Name() != "_" {
			c := ex.cellOf(r)
			st.store[c] = zeroVal(kindOf(r.Type()))
			ex.resultNames = append(ex.resultNames, r.Name())
		} else {
			ex.resultNames = append(ex.resultNames, "")
		}
	}
	// shapes: opt shape.<path> = [5][5][64]
	for k, v := range ex.ct.Opts {
		if strings.HasPrefix(k, "shape ") {
			path := strings.TrimSpace(strings.TrimPrefix(k, "shape "))
			dims, _, _, e := parseShape(v)
			if e != nil {
				return e
			}
			_ = dims
			if err := ex.applyShapeStr(st, path, v); err != nil {
				return err
			}
		}
	}
	if ex.ghostCells == nil {
		ex.ghostCells = map[string]*Cell{}
	}
	ex.ghostCells["trace"] = theTraceCell
	st.store[theTraceCell] = SV{T: Var("trace0", SInt)}
	st.store[ex.ghostCell("stdoutWrites")] = SV{T: Zero}
	st.store[ex.ghostCell("stdoutLast")] = mkVec(&Kind{K: "int"}, nil)
	ex.entry = nil
	if ex.P.Op == "var" {
		st.assume(Ge(ex.P, IntLit(3)))
	}
	bodyPos := fd.Body.Lbrace + 1
	// requires
	ceReq := ex.cenv(st, bodyPos)
	for _, r := range ex.ct.Requires {
		if r.Mode != "" && r.Mode != ex.mode {
			continue
		}
		st.assume(ceReq.evalBool(r.Expr))
	}
	if len(ex.ct.Cases) > 0 {
		if ex.caseIdx == -1 {
			var cs []*Term
			for _, c := range ex.ct.Cases {
				cs = append(cs, ceReq.evalBool(c.Expr))
			}
			ex.oblige(st, "cases-exhaustive", "cases-exhaustive", Or(cs...), nil)
			return nil
		}
		st.assume(ceReq.evalBool(ex.ct.Cases[ex.caseIdx-1].Expr))
	}
	ex.propagateEqualities(st)
	ex.entry = st.clone()
	// execute
	finals0 := ex.execBlock([]*State{st}, fd.Body.List)
	var finals []*State
	for _, f := range finals0 {
		if f.ctl == ctlNormal && len(f.defers) > 0 {
			f.ctl = ctlReturn
			for _, o := range ex.runDefers(f) {
				if o.ctl == ctlReturn && len(o.ret) == 0 {
					o.ctl = ctlNormal
				}
				finals = append(finals, o)
			}
			continue
		}
		finals = append(finals, f)
	}
	nret := 0
	for _, f := range finals {
		if f.ctl == ctlPanic {
			continue
		}
		if f.ctl == ctlNormal && sig.Results().Len() > 0 && len(ex.resultNames) > 0 && ex.resultNames[0] == "" {
			// falls off the end of a function with results: Go compiler forbids; ignore
			continue
		}
		nret++
		ex.ghostAsserts([]*State{f}, "return", fd.Body.Rbrace, nil)
		ex.checkPost(f, nret)
	}
	if nret == 0 {
		ex.fail("vacuity", "no-return-path", "no path reaches a return", fd.Body)
	}
	return nil
}

func (ex *Exec) applyShapeStr(st *State, path string, sh string) error {
	dims, _, _, err := parseShape(sh)
	if err != nil {
		return err
	}
	return ex.applyShape(st, path, dims)
}

func (ex *Exec) applyShape(st *State, path string, dims []int) error {
	parts := strings.Split(path, ".")
	scope := ex.fi.Pkg.Types.Scope().Innermost(ex.fi.Body.Lbrace + 1)
	_, obj := scope.LookupParent(parts[0], ex.fi.Body.Lbrace+1)
	if obj == nil {
		return fmt.Errorf("shape: unknown %s", parts[0])
	}
	c := ex.cells[obj]
	var accs []Acc
	for _, p := range parts[1:] {
		accs = append(accs, Acc{Field: p})
	}
	st.store[c] = ex.update(st.store[c], accs, ex.freshDims(st, dims, varKind, sanitize(path)))
	return nil
}

// propagateEqualities substitutes variables pinned to literals by the path condition.
func (ex *Exec) propagateEqualities(st *State) {
	m := map[*Term]*Term{}
	for _, a := range st.pc {
		if a.Op == "=" && len(a.Args) == 2 {
			x, y := a.Args[0], a.Args[1]
			if y.Op == "var" && x.IsInt() {
				x, y = y, x
			}
			if x.Op == "var" && y.IsInt() && !strings.Contains(x.Name, "!q") {
				m[x] = y
			}
		}
	}
	if len(m) == 0 {
		return
	}
	ex.substState(st, m)
}

func (ex *Exec) substState(st *State, m map[*Term]*Term) {
	for c, v := range st.store {
		st.store[c] = substVal(v, m)
	}
	var npc []*Term
	for _, a := range st.pc {
		b := Subst(a, m)
		if !b.IsTrue() {
			npc = append(npc, b)
		}
	}
	st.pc = npc
	if st.ok != nil {
		st.ok = Subst(st.ok, m)
	}
	for i, r := range st.ret {
		st.ret[i] = substVal(r, m)
	}
}

func substVal(v Val, m map[*Term]*Term) Val {
	switch x := v.(type) {
	case SV:
		r := SV{T: Subst(x.T, m)}
		if x.Lit != nil {
			r.Lit = Subst(x.Lit, m)
		}
		return r
	case *SliceV:
		if x.IsV {
			nv := make([]Val, len(x.Vec))
			ch := false
			for i, e := range x.Vec {
				nv[i] = substVal(e, m)
				if !sameVal(nv[i], e) {
					ch = true
				}
			}
			if !ch {
				return x
			}
			return &SliceV{Elem: x.Elem, Len: x.Len, Vec: nv, IsV: true, Tag: x.Tag}
		}
		r := *x
		r.Len = Subst(x.Len, m)
		if x.FieldArr != nil {
			nf := map[string]*Term{}
			ch := r.Len != x.Len
			for k, a := range x.FieldArr {
				nf[k] = Subst(a, m)
				if nf[k] != a {
					ch = true
				}
			}
			if !ch {
				return x
			}
			r.FieldArr = nf
			return &r
		}
		if x.Arr == nil {
			if r.Len == x.Len {
				return x
			}
			return &r
		}
		r.Arr = Subst(x.Arr, m)
		if x.Lens != nil {
			r.Lens = Subst(x.Lens, m)
		}
		if x.Lit != nil {
			r.Lit = Subst(x.Lit, m)
		}
		if r.Len == x.Len && r.Arr == x.Arr && r.Lens == x.Lens && r.Lit == x.Lit {
			return x
		}
		if r.Len.IsInt() && r.Len.Int64() <= 64 && x.Elem.K != "slice" {
			return r.explode()
		}
		return &r
	case *StructV:
		nf := make(map[string]Val, len(x.F))
		ch := false
		for k, fv := range x.F {
			nf[k] = substVal(fv, m)
			if !sameVal(nf[k], fv) {
				ch = true
			}
		}
		if !ch {
			return x
		}
		return &StructV{K: x.K, F: nf}
	case *ObjV:
		ng := make(map[string]Val, len(x.Ghost))
		for k, gv := range x.Ghost {
			ng[k] = substVal(gv, m)
		}
		return &ObjV{K: x.K, ID: Subst(x.ID, m), Ghost: ng}
	case *TupleV:
		vs := make([]Val, len(x.Vs))
		for i := range vs {
			vs[i] = substVal(x.Vs[i], m)
		}
		return &TupleV{vs}
	case *RefV:
		if x.NilT != nil {
			nt := Subst(x.NilT, m)
			if nt != x.NilT {
				r := *x
				r.NilT = nt
				if nt.IsFalse() {
					r.NilT = nil
				}
				if nt.IsTrue() {
					r.Nil = true
				}
				return &r
			}
		}
	}
	return v
}

func (ex *Exec) checkPost(f *State, n int) {
	ex.cur = f
	ce := ex.cenv(f, ex.fi.Body.Rbrace)
	base := ce.lookup
	ce.lookup = func(name string) (Val, bool) {
		if name == "result" && len(f.ret) > 0 {
			return f.ret[0], true
		}
		for i, rn := range ex.resultNames {
			if i < len(f.ret) && (rn == name || fmt.Sprintf("result%d", i) == name) {
				return f.ret[i], true
			}
		}
		return base(name)
	}
	// frame of the ghost trace: a function that emits events must declare `modifies trace`
	if tv, ok := f.store[theTraceCell].(SV); ok && ex.entry != nil {
		if ev, ok2 := ex.entry.store[theTraceCell].(SV); ok2 && tv.T != ev.T {
			declared := false
			for _, m := range ex.ct.Modifies {
				if m.String() == "trace" {
					declared = true
				}
			}
			if !declared && len(ex.ct.Props) > 0 && ex.inlineDepth == 0 && ex.traceMatters() {
				ex.fail("frame", fmt.Sprintf("frame(trace)@ret%d", n), "the function emits ghost trace events but its contract has no `modifies trace`", nil)
			}
		}
	}
	k := 0
	for _, e := range ex.ct.Ensures {
		k++
		if e.Mode != "" && e.Mode != ex.mode {
			continue
		}
		goal := ce.evalBool(e.Expr)
		parts := splitGoal(goal)
		if len(parts) > 1 {
			for pi, pg := range parts {
				ex.oblige(f, "post", fmt.Sprintf("post#%d.%d@ret%d", k, pi+1, n), pg, nil)
				ex.obls[len(ex.obls)-1].Note = e.Text
				ex.obls[len(ex.obls)-1].Group = fmt.Sprintf("%s/post#%d@ret%d%s", ex.fnName, k, n, ex.modeSuffix())
			}
			continue
		}
		ex.oblige(f, "post", fmt.Sprintf("post#%d@ret%d", k, n), goal, nil)
		ex.obls[len(ex.obls)-1].Note = e.Text
	}
	// cover clauses: some return must be reachable with the condition true
	for ci, cv := range ex.ct.Covers {
		if cv.Mode != "" && cv.Mode != ex.mode {
			continue
		}
		c := ce.evalBool(cv.Expr)
		ex.obls = append(ex.obls, &Obligation{Name: fmt.Sprintf("%s/cover#%d@ret%d%s", ex.fnName, ci+1, n, ex.modeSuffix()), Prop: ex.ct.Props, Func: ex.fi.Key,
			Kind: "canary", Mode: ex.mode, Assumes: append(append([]*Term{}, f.pc...), c), Goal: False, Canary: true, Reveal: ex.reveal, Lemmas: ex.lemmas,
			Note: "cover: " + cv.Text})
	}
	// vacuity canary: the path condition at this return must be satisfiable
	o := &Obligation{Name: fmt.Sprintf("%s/canary@ret%d%s", ex.fnName, n, ex.modeSuffix()), Prop: ex.ct.Props, Func: ex.fi.Key, Kind: "canary", Mode: ex.mode,
		Assumes: append([]*Term{}, f.pc...), Goal: False, Canary: true, Reveal: ex.reveal, Lemmas: ex.lemmas}
	ex.obls = append(ex.obls, o)
}

// ---------- statements ----------

func (ex *Exec) execBlock(states []*State, stmts []ast.Stmt) []*State {
	for _, s := range stmts {
		var next []*State
		for _, st := range states {
			if st.ctl != ctlNormal {
				next = append(next, st)
				continue
			}
			next = append(next, ex.execStmtSafe(st, s)...)
		}
		states = next
	}
	return states
}

func (ex *Exec) execStmtSafe(st *State, s ast.Stmt) (out []*State) {
	defer func() {
		if r := recover(); r != nil {
			if _, ok := r.(abortPath); ok {
				st.ctl = ctlPanic
				out = []*State{st}
				return
			}
			panic(r)
		}
	}()
	return ex.execStmt(st, s)
}

func (ex *Exec) execStmt(st *State, s ast.Stmt) []*State {
	ex.cur = st
	switch n := s.(type) {
	case *ast.BlockStmt:
		return ex.execBlock([]*State{st}, n.List)
	case *ast.ExprStmt:
		ex.evalExpr(st, n.X)
		return []*State{st}
	case *ast.DeclStmt:
		gd := n.Decl.(*ast.GenDecl)
		if gd.Tok == token.VAR {
			for _, sp := range gd.Specs {
				vs := sp.(*ast.ValueSpec)
				for i, name := range vs.Names {
					obj := ex.info.Defs[name]
					if obj == nil {
						continue
					}
					var v Val
					if i < len(vs.Values) {
						v = ex.coerce(st, ex.evalExpr(st, vs.Values[i]), ex.info.TypeOf(vs.Values[i]), obj.Type())
					} else {
						v = zeroVal(kindOf(obj.Type()))
					}
					st.store[ex.cellOf(obj)] = v
				}
			}
		}
		return []*State{st}
	case *ast.AssignStmt:
		ex.execAssign(st, n)
		if n.Tok == token.DEFINE && len(ex.ct.Asserts) > 0 {
			for _, l := range n.Lhs {
				if id, ok := l.(*ast.Ident); ok && id.Name != "_" {
					ex.ghostAsserts([]*State{st}, "def:"+id.Name, n.End(), n)
				}
			}
		}
		return []*State{st}
	case *ast.IncDecStmt:
		r := ex.lvalue(st, n.X)
		v := ex.load(st, r, n).(SV)
		d := One
		if n.Tok == token.DEC {
			d = IntLit(-1)
		}
		ex.storeRef(st, r, ex.arithResult(st, SV{T: Add(v.T, d)}, ex.info.TypeOf(n.X), n), n)
		return []*State{st}
	case *ast.ReturnStmt:
		var rets []Val
		if len(n.Results) == 0 {
			for i, rn := range ex.resultNames {
				_ = i
				if rn != "" {
					rets = append(rets, ex.namedResult(st, rn))
				}
			}
		} else if len(n.Results) == 1 && ex.fi.Sig.Results().Len() > 1 {
			tv := ex.evalExpr(st, n.Results[0]).(*TupleV)
			rets = tv.Vs
		} else {
			for i, r := range n.Results {
				v := ex.evalExpr(st, r)
				v = ex.coerce(st, v, ex.info.TypeOf(r), ex.fi.Sig.Results().At(i).Type())
				rets = append(rets, v)
			}
			// assign to named results (for deferred closures observing them)
			for i, rn := range ex.resultNames {
				if rn != "" && i < len(rets) {
					ex.setNamedResult(st, rn, rets[i])
				}
			}
		}
		st.ret = rets
		st.ctl = ctlReturn
		return ex.runDefers(st)
	case *ast.IfStmt:
		return ex.execIf(st, n)
	case *ast.ForStmt:
		return ex.execFor(st, n)
	case *ast.RangeStmt:
		return ex.execRange(st, n)
	case *ast.SwitchStmt:
		return ex.execSwitch(st, n)
	case *ast.BranchStmt:
		if n.Label != nil {
			panic(unsupported("labelled branch"))
		}
		switch n.Tok {
		case token.BREAK:
			st.ctl = ctlBreak
		case token.CONTINUE:
			st.ctl = ctlContinue
		default:
			panic(unsupported("branch %s", n.Tok))
		}
		return []*State{st}
	case *ast.DeferStmt:
		if _, ok := n.Call.Fun.(*ast.FuncLit); ok && len(n.Call.Args) == 0 {
			st.defers = append(st.defers, n)
		} else {
			ex.note("defer of a plain call at %s (e.g. file.Close()): no effect on modelled state", ex.pos(n))
		}
		return []*State{st}
	case *ast.GoStmt:
		return ex.execGo(st, n)
	case *ast.EmptyStmt:
		return []*State{st}
	case *ast.SendStmt:
		// ghost event: a value was sent on the channel (no blocking or buffering is modelled)
		ch, ok := ex.evalExpr(st, n.Chan).(*ObjV)
		if !ok {
			panic(unsupported("send on a non-channel value at %s", ex.pos(n)))
		}
		ex.evalExpr(st, n.Value)
		ex.traceEvent(st, "send", ch.ID)
		return []*State{st}
	case *ast.SelectStmt:
		// every ready communication may be chosen: one successor state per clause (the default clause included)
		var out []*State
		for _, cc := range n.Body.List {
			cl := cc.(*ast.CommClause)
			s2 := st.clone()
			sts := []*State{s2}
			if cl.Comm != nil {
				sts = ex.execStmt(s2, cl.Comm)
			}
			for _, o := range ex.execBlock(sts, cl.Body) {
				if o.ctl == ctlBreak {
					o.ctl = ctlNormal
				}
				out = append(out, o)
			}
		}
		if len(out) == 0 {
			panic(abortPath{}) // select {} blocks forever
		}
		return out
	}
	panic(unsupported("statement %T at %s", s, ex.pos(s)))
}

func (ex *Exec) namedResult(st *State, name string) Val {
	for i := 0; i < ex.fi.Sig.Results().Len(); i++ {
		r := ex.fi.Sig.Results().At(i)
		if r.Name() == name {
			return st.store[ex.cellOf(r)]
		}
	}
	panic("no named result " + name)
}

func (ex *Exec) setNamedResult(st *State, name string, v Val) {
	for i := 0; i < ex.fi.Sig.Results().Len(); i++ {
		r := ex.fi.Sig.Results().At(i)
		if r.Name() == name {
			st.store[ex.cellOf(r)] = v
		}
	}
}

func (ex *Exec) execAssign(st *State, n *ast.AssignStmt) {
	if n.Tok != token.ASSIGN && n.Tok != token.DEFINE {
		// op=
		r := ex.lvalue(st, n.Lhs[0])
		a := ex.load(st, r, n)
		b := ex.evalExpr(st, n.Rhs[0])
		var op token.Token
		switch n.Tok {
		case token.ADD_ASSIGN:
			op = token.ADD
		case token.SUB_ASSIGN:
			op = token.SUB
		case token.MUL_ASSIGN:
			op = token.MUL
		default:
			panic(unsupported("assign op %s", n.Tok))
		}
		ex.storeRef(st, r, ex.binop(st, op, a, b, ex.info.TypeOf(n.Lhs[0]), ex.info.TypeOf(n.Rhs[0]), n), n)
		return
	}
	var vals []Val
	if len(n.Rhs) == 1 && len(n.Lhs) > 1 {
		v := ex.evalExpr(st, n.Rhs[0])
		tv, ok := v.(*TupleV)
		if !ok {
			panic(unsupported("multi-assign from %T at %s", v, ex.pos(n)))
		}
		vals = tv.Vs
	} else {
		for _, r := range n.Rhs {
			vals = append(vals, ex.evalExpr(st, r))
		}
	}
	// evaluate lvalues after rhs (sufficient for the subset; swaps use tuple semantics below)
	var refs []*RefV
	for _, l := range n.Lhs {
		if id, ok := l.(*ast.Ident); ok && id.Name == "_" {
			refs = append(refs, nil)
			continue
		}
		if ix, ok := l.(*ast.IndexExpr); ok {
			if _, isMap := ex.info.TypeOf(ix.X).Underlying().(*types.Map); isMap {
				// map contents are abstract (reads are unconstrained): a store changes nothing that is modelled
				ex.evalExpr(st, ix.X)
				ex.evalExpr(st, ix.Index)
				ex.note("store into a map at %s: map contents are abstract", ex.pos(l))
				refs = append(refs, nil)
				continue
			}
		}
		if n.Tok == token.DEFINE {
			if id, ok := l.(*ast.Ident); ok {
				if obj := ex.info.Defs[id]; obj != nil {
					refs = append(refs, &RefV{Cell: ex.cellOf(obj)})
					continue
				}
			}
		}
		refs = append(refs, ex.lvalue(st, l))
	}
	for i, r := range refs {
		if r == nil {
			continue
		}
		v := vals[i]
		if len(n.Rhs) == len(n.Lhs) {
			v = ex.coerce(st, v, ex.info.TypeOf(n.Rhs[i]), ex.info.TypeOf(n.Lhs[i]))
		}
		ex.storeRef(st, r, v, n)
	}
}

// lvalue resolves an assignable expression to a reference.
func (ex *Exec) lvalue(st *State, e ast.Expr) *RefV {
	switch n := e.(type) {
	case *ast.Ident:
		obj := ex.info.Uses[n]
		if obj == nil {
			obj = ex.info.Defs[n]
		}
		if v, ok := obj.(*types.Var); ok {
			if v.Parent() == v.Pkg().Scope() {
				ex.fail("frame", ex.site("frame"), "assignment to package-level variable "+v.Name(), e)
				panic(abortPath{})
			}
			c := ex.cellOf(v)
			if _, ok := st.store[c]; !ok {
				st.store[c] = zeroVal(kindOf(v.Type()))
			}
			return &RefV{Cell: c}
		}
	case *ast.ParenExpr:
		return ex.lvalue(st, n.X)
	case *ast.SelectorExpr:
		if sel, ok := ex.info.Selections[n]; ok && sel.Kind() == types.FieldVal {
			xt := ex.info.TypeOf(n.X)
			if _, isPtr := xt.Underlying().(*types.Pointer); isPtr {
				p := ex.evalExpr(st, n.X).(*RefV)
				return &RefV{Cell: p.Cell, Path: append(append([]Acc{}, p.Path...), Acc{Field: n.Sel.Name}), Nil: p.Nil, NilT: p.NilT}
			}
			b := ex.lvalue(st, n.X)
			return &RefV{Cell: b.Cell, Path: append(append([]Acc{}, b.Path...), Acc{Field: n.Sel.Name}), Nil: b.Nil}
		}
	case *ast.IndexExpr:
		xt := ex.info.TypeOf(n.X)
		idx := ex.evalExpr(st, n.Index).(SV).T
		var b *RefV
		if pt, isPtr := xt.Underlying().(*types.Pointer); isPtr {
			_ = pt
			b = ex.evalExpr(st, n.X).(*RefV)
		} else {
			b = ex.lvalueOrTemp(st, n.X)
		}
		s, ok := ex.load(st, b, n).(*SliceV)
		if !ok {
			panic(unsupported("index assignment on non-slice at %s", ex.pos(e)))
		}
		ex.boundsCheck(st, idx, s.Len, n)
		return &RefV{Cell: b.Cell, Path: append(append([]Acc{}, b.Path...), Acc{Idx: idx}), Nil: b.Nil}
	case *ast.StarExpr:
		return ex.evalExpr(st, n.X).(*RefV)
	}
	panic(unsupported("lvalue %T at %s", e, ex.pos(e)))
}

// lvalueOrTemp: like lvalue but for non-addressable expressions yields a temp cell.
func (ex *Exec) lvalueOrTemp(st *State, e ast.Expr) (r *RefV) {
	defer func() {
		if rec := recover(); rec != nil {
			if _, ok := rec.(unsupportedErr); ok {
				c := newCell("tmp")
				st.store[c] = ex.evalExpr(st, e)
				r = &RefV{Cell: c}
				return
			}
			panic(rec)
		}
	}()
	return ex.lvalue(st, e)
}

func (ex *Exec) boundsCheck(st *State, idx, ln *Term, node ast.Node) {
	g := And(Le(Zero, idx), Lt(idx, ln))
	if g.IsTrue() {
		return
	}
	ex.oblige(st, "bounds", ex.site("bounds"), g, node)
	st.assume(g) // beyond this point the access succeeded
}

func (ex *Exec) execIf(st *State, n *ast.IfStmt) []*State {
	if n.Init != nil {
		sts := ex.execStmt(st, n.Init)
		if len(sts) != 1 || sts[0].ctl != ctlNormal {
			panic(unsupported("control flow in if-init"))
		}
		st = sts[0]
	}
	c := ex.evalExpr(st, n.Cond).(SV).T
	if c.IsTrue() {
		return ex.execStmt(st, n.Body)
	}
	if c.IsFalse() {
		if n.Else != nil {
			return ex.execStmt(st, n.Else)
		}
		return []*State{st}
	}
	basePC := len(st.pc)
	ts := st.clone()
	ts.decide(c)
	es := st.clone()
	es.decide(Not(c))
	touts := ex.execStmtSafe(ts, n.Body)
	var eouts []*State
	if n.Else != nil {
		eouts = ex.execStmtSafe(es, n.Else)
	} else {
		eouts = []*State{es}
	}
	// merge when both sides produced exactly one normal state
	if len(touts) == 1 && len(eouts) == 1 && touts[0].ctl == ctlNormal && eouts[0].ctl == ctlNormal && len(touts[0].defers) == len(eouts[0].defers) {
		return []*State{ex.mergeStates(c, touts[0], eouts[0], basePC)}
	}
	var out []*State
	out = append(out, touts...)
	out = append(out, eouts...)
	// try merging the normal states pairwise if exactly one each
	return out
}

func (ex *Exec) mergeStates(c *Term, a, b *State, basePC int) *State {
	m := &State{store: map[*Cell]Val{}, ctl: ctlNormal, decs: a.decs, defers: a.defers, frozen: unionFrozen(a, b)}
	m.pc = append(m.pc, a.pc[:basePC]...)
	var ea, eb []*Term
	for _, t := range a.pc[basePC:] {
		if t != c {
			ea = append(ea, t)
		}
	}
	nc := Not(c)
	for _, t := range b.pc[basePC:] {
		if t != nc {
			eb = append(eb, t)
		}
	}
	if len(ea) > 0 {
		m.pc = append(m.pc, Imp(c, And(ea...)))
	}
	if len(eb) > 0 {
		m.pc = append(m.pc, Imp(nc, And(eb...)))
	}
	for k, va := range a.store {
		if vb, ok := b.store[k]; ok {
			m.store[k] = mergeVal(c, va, vb)
		}
	}
	if a.ok != nil {
		m.ok = Ite(c, a.ok, b.ok)
	}
	for _, src := range []*State{a, b} {
		for k, v := range src.calls {
			for _, r := range v {
				dup := false
				for _, e := range m.calls[k] {
					if len(e) > 0 && len(r) > 0 && sameVal(e[len(e)-1], r[len(r)-1]) && sameVal(e[0], r[0]) {
						dup = true
					}
				}
				if !dup {
					m.recordCall(k, r)
				}
			}
		}
	}
	return m
}

func (ex *Exec) execSwitch(st *State, n *ast.SwitchStmt) []*State {
	if n.Init != nil {
		ex.execStmt(st, n.Init)
	}
	var tag Val
	if n.Tag != nil {
		tag = ex.evalExpr(st, n.Tag)
	}
	var out []*State
	cur := st
	var defaultClause *ast.CaseClause
	for _, cc := range n.Body.List {
		cl := cc.(*ast.CaseClause)
		if cl.List == nil {
			defaultClause = cl
			continue
		}
		var conds []*Term
		for _, e := range cl.List {
			v := ex.evalExpr(cur, e)
			if tag != nil {
				conds = append(conds, ex.valEq(tag, v, nil))
			} else {
				conds = append(conds, v.(SV).T)
			}
		}
		c := Or(conds...)
		if c.IsFalse() {
			continue
		}
		ts := cur.clone()
		ts.decide(c)
		for _, o := range ex.execBlock([]*State{ts}, cl.Body) {
			if o.ctl == ctlBreak {
				o.ctl = ctlNormal
			}
			out = append(out, o)
		}
		if c.IsTrue() {
			return out
		}
		cur = cur.clone()
		cur.decide(Not(c))
	}
	if defaultClause != nil {
		for _, o := range ex.execBlock([]*State{cur}, defaultClause.Body) {
			if o.ctl == ctlBreak {
				o.ctl = ctlNormal
			}
			out = append(out, o)
		}
	} else {
		out = append(out, cur)
	}
	return out
}

// assignedRoots collects the root variables assigned (or possibly modified) in a statement list.
func (ex *Exec) assignedRoots(n ast.Node) map[types.Object]bool {
	roots := map[types.Object]bool{}
	if ex.rootFields == nil || !ex.keepRootFields {
		ex.rootFields = map[types.Object]map[string]bool{}
	}
	var lastField string
	var rootOf0 func(e ast.Expr) types.Object
	rootOf := func(e ast.Expr) types.Object {
		lastField = ""
		o := rootOf0(e)
		if o != nil {
			if ex.rootFields[o] == nil {
				ex.rootFields[o] = map[string]bool{}
			}
			ex.rootFields[o][lastField] = true
		}
		return o
	}
	rootOf0 = func(e ast.Expr) types.Object {
		switch x := e.(type) {
		case *ast.Ident:
			if o := ex.info.Uses[x]; o != nil {
				return o
			}
			return ex.info.Defs[x]
		case *ast.SelectorExpr:
			if sel, ok := ex.info.Selections[x]; ok && sel.Kind() == types.FieldVal {
				o := rootOf0(x.X)
				if _, isRoot := x.X.(*ast.Ident); isRoot {
					lastField = x.Sel.Name
				}
				return o
			}
			return rootOf0(x.X)
		case *ast.IndexExpr:
			return rootOf0(x.X)
		case *ast.StarExpr:
			return rootOf0(x.X)
		case *ast.ParenExpr:
			return rootOf0(x.X)
		case *ast.SliceExpr:
			return rootOf0(x.X)
		case *ast.UnaryExpr:
			return rootOf0(x.X)
		}
		return nil
	}
	ast.Inspect(n, func(x ast.Node) bool {
		switch s := x.(type) {
		case *ast.AssignStmt:
			for _, l := range s.Lhs {
				if o := rootOf(l); o != nil {
					roots[o] = true
				}
			}
		case *ast.IncDecStmt:
			if o := rootOf(s.X); o != nil {
				roots[o] = true
			}
		case *ast.RangeStmt:
			if s.Key != nil {
				if o := rootOf(s.Key); o != nil {
					roots[o] = true
				}
			}
			if s.Value != nil {
				if o := rootOf(s.Value); o != nil {
					roots[o] = true
				}
			}
		case *ast.CallExpr:
			if id, ok := s.Fun.(*ast.Ident); ok {
				if b, isB := ex.info.Uses[id].(*types.Builtin); isB {
					if b.Name() == "copy" && len(s.Args) > 0 {
						if o := rootOf(s.Args[0]); o != nil {
							roots[o] = true
						}
					}
					return true
				}
			}
			if tv, ok := ex.info.Types[s.Fun]; ok && tv.IsType() {
				return true // conversion
			}
			if ex.isLoggingChain(s) {
				return true
			}
			ct, fn, gadget := ex.calleeContract(s)
			if ct != nil {
				// only what the callee's modifies clause names
				for _, m := range ct.Modifies {
					root, fields := splitPath(m)
					var argExpr ast.Expr
					if gadget != nil {
						recvName := ""
						if fi := ex.prog.Funcs[ct.Key]; fi != nil && fi.Sig.Recv() != nil {
							recvName = fi.Sig.Recv().Name()
						}
						if root == recvName && len(fields) > 0 {
							if cl, ok := s.Args[1].(*ast.CompositeLit); ok {
								stT, _ := gadget.Underlying().(*types.Struct)
								for i, el := range cl.Elts {
									if kv, ok := el.(*ast.KeyValueExpr); ok {
										if id, ok := kv.Key.(*ast.Ident); ok && id.Name == fields[0] {
											argExpr = kv.Value
										}
									} else if stT != nil && i < stT.NumFields() && stT.Field(i).Name() == fields[0] {
										argExpr = el
									}
								}
							} else {
								argExpr = s.Args[1]
							}
						}
					} else if fn != nil {
						sig := fn.Type().(*types.Signature)
						names := []string{}
						var exprs []ast.Expr
						if sig.Recv() != nil {
							if sel, ok := s.Fun.(*ast.SelectorExpr); ok {
								exprs = append(exprs, sel.X)
							}
						}
						exprs = append(exprs, s.Args...)
						if ct.Extern {
							names = ct.Params
						} else {
							if sig.Recv() != nil {
								names = append(names, sig.Recv().Name())
							}
							for i := 0; i < sig.Params().Len(); i++ {
								names = append(names, sig.Params().At(i).Name())
							}
						}
						for i, n := range names {
							if n == root && i < len(exprs) {
								argExpr = exprs[i]
							}
						}
					}
					if argExpr != nil {
						if o := rootOf(argExpr); o != nil {
							if _, isVar := o.(*types.Var); isVar {
								roots[o] = true
							}
						}
					}
				}
				return true
			}
			var args []ast.Expr
			args = append(args, s.Args...)
			if sel, ok := s.Fun.(*ast.SelectorExpr); ok {
				if id := identOf(sel.X); id == nil {
					args = append(args, sel.X)
				} else if _, isPkg := ex.info.Uses[id].(*types.PkgName); !isPkg {
					args = append(args, sel.X)
				}
			}
			// a method with a pointer receiver called on an addressable struct variable (implicit &x) may modify it
			if sel, ok := s.Fun.(*ast.SelectorExpr); ok {
				if f := ex.calleeOf(s); f != nil {
					if sig, ok := f.Type().(*types.Signature); ok && sig.Recv() != nil {
						if _, isPtr := sig.Recv().Type().Underlying().(*types.Pointer); isPtr {
							if o := rootOf(sel.X); o != nil {
								if v, isVar := o.(*types.Var); isVar && v != ex.apiObj {
									roots[o] = true
								}
							}
						}
					}
				}
			}
			for _, a := range args {
				t := ex.info.TypeOf(a)
				if t == nil {
					continue
				}
				switch t.Underlying().(type) {
				case *types.Slice, *types.Pointer, *types.Array, *types.Interface:
					if o := rootOf(a); o != nil {
						if v, isVar := o.(*types.Var); isVar && v != ex.apiObj {
							roots[o] = true
						}
					}
				}
			}
		}
		return true
	})
	return roots
}

// ghostAsserts proves and then assumes the contract's assert@<anchor> clauses in the given states.
func (ex *Exec) ghostAsserts(states []*State, anchor string, pos token.Pos, node ast.Node) {
	for _, a := range ex.ct.Asserts {
		if a.Name != anchor || (a.Mode != "" && a.Mode != ex.mode) {
			continue
		}
		for i, s := range states {
			if s.ctl != ctlNormal && !(anchor == "return" && s.ctl == ctlReturn) {
				continue
			}
			ex.cur = s
			ce := ex.cenv(s, pos)
			if ex.assertExtra != nil {
				base := ce.lookup
				extra := ex.assertExtra
				ce.lookup = func(name string) (Val, bool) {
					if v, ok := extra[name]; ok {
						return v, true
					}
					return base(name)
				}
			}
			if anchor == "return" {
				base := ce.lookup
				ret := s.ret
				ce.lookup = func(name string) (Val, bool) {
					if name == "result" && len(ret) > 0 {
						return ret[0], true
					}
					for i := range ret {
						if name == fmt.Sprintf("result%d", i) {
							return ret[i], true
						}
					}
					return base(name)
				}
			}
			if a.Kind == "snap" {
				// ghost snapshot: the value of the expression at this point, under a name later clauses can use
				s.store[ex.ghostCell(a.Var)] = detach(ce.eval(a.Expr))
				continue
			}
			g := ce.evalBool(a.Expr)
			savedLem, savedRev := ex.lemmas, ex.reveal
			if len(a.Lemmas) > 0 || len(a.Reveal) > 0 || a.Only {
				ex.lemmas = append(append([]string{}, ex.lemmas...), a.Lemmas...)
				nr := map[string]bool{}
				for k := range ex.reveal {
					nr[k] = true
				}
				if a.Only {
					ex.lemmas = append([]string{}, a.Lemmas...)
					nr = map[string]bool{}
				}
				for _, r := range a.Reveal {
					nr[r] = true
				}
				ex.reveal = nr
			}
			ex.oblige(s, "assert", fmt.Sprintf("assert@%s#L%d.%d", anchor, a.Line, i+1), g, node)
			ex.lemmas, ex.reveal = savedLem, savedRev
			ex.obls[len(ex.obls)-1].Note = a.Text
			if a.Timeout > 0 {
				ex.obls[len(ex.obls)-1].Timeout = a.Timeout
			}
			if !g.IsFalse() {
				s.assume(g)
			}
		}
	}
}

func (ex *Exec) execFor(st *State, n *ast.ForStmt) []*State {
	ex.loopOrd++
	ord := ex.loopOrd
	outs := ex.execFor1(st, n, ord)
	ex.ghostAsserts(outs, fmt.Sprintf("loop%d", ord), n.End(), n)
	return outs
}

func (ex *Exec) execFor1(st *State, n *ast.ForStmt, ord int) []*State {
	if n.Init != nil {
		ex.execStmt(st, n.Init)
	}
	spec := ex.ct.Loops[ord]
	if spec != nil && len(spec.Invs) > 0 && !spec.Unroll {
		return ex.execLoopInv(st, spec, ord, n, n.Cond, n.Body, n.Post, nil)
	}
	// unroll
	var exits []*State
	work := []*State{st}
	savedOrd := ex.loopOrd
	iter := 0
	for len(work) > 0 {
		iter++
		if iter > 20000 {
			panic(unsupported("loop %d at %s does not terminate under unrolling", ord, ex.pos(n)))
		}
		var next []*State
		for _, s := range work {
			ex.cur = s
			c := True
			if n.Cond != nil {
				c = ex.evalExpr(s, n.Cond).(SV).T
			}
			if c.IsFalse() {
				exits = append(exits, s)
				continue
			}
			if !c.IsTrue() {
				ex.fail("loop-invariant-missing", fmt.Sprintf("loop#%d", ord), fmt.Sprintf("loop %d at %s has a symbolic condition %s and no invariant", ord, ex.pos(n), trunc(c.String(), 120)), n)
				panic(abortPath{})
			}
			ex.loopOrd = savedOrd // nested loops keep stable ordinals across iterations
			basePC := len(s.pc)
			outs := ex.execBlock([]*State{s}, n.Body.List)
			var cont []*State
			for _, o := range outs {
				switch o.ctl {
				case ctlBreak:
					o.ctl = ctlNormal
					exits = append(exits, o)
				case ctlContinue, ctlNormal:
					o.ctl = ctlNormal
					cont = append(cont, o)
				default:
					exits = append(exits, o)
				}
			}
			if m := ex.mergeMany(cont, basePC); m != nil {
				cont = []*State{m}
			}
			for _, o := range cont {
				if n.Post != nil {
					ex.execStmt(o, n.Post)
				}
				next = append(next, o)
			}
		}
		work = next
	}
	ex.loopOrd = savedOrd + ex.countLoops(n.Body)
	ex.staticTrue("termination", fmt.Sprintf("loop#%d/termination", ord), fmt.Sprintf("unrolled: the condition is decided on every path, %d iterations at most", iter-1), n)
	return exits
}

func (ex *Exec) countLoops(n ast.Node) int {
	c := 0
	ast.Inspect(n, func(x ast.Node) bool {
		switch x.(type) {
		case *ast.ForStmt, *ast.RangeStmt:
			c++
		case *ast.FuncLit:
			return false
		}
		return true
	})
	return c
}

// execLoopInv handles a loop with an invariant. rangeInfo is non-nil for range loops (already desugared by caller).
func (ex *Exec) execLoopInv(st *State, spec *LoopSpec, ord int, node ast.Node, cond ast.Expr, body *ast.BlockStmt, post ast.Stmt, pre func(s *State)) []*State {
	savedLem, savedRev := ex.lemmas, ex.reveal
	defer func() { ex.lemmas, ex.reveal = savedLem, savedRev }()
	if len(spec.Lemmas) > 0 {
		ex.lemmas = append(append([]string{}, ex.lemmas...), spec.Lemmas...)
	}
	if len(spec.Reveal) > 0 {
		nr := map[string]bool{}
		for k := range ex.reveal {
			nr[k] = true
		}
		for _, r := range spec.Reveal {
			nr[r] = true
		}
		ex.reveal = nr
	}
	pos := body.Lbrace + 1
	evalInvs := func(s *State) []*Term {
		ex.cur = s
		ce := ex.cenv(s, pos)
		var ts []*Term
		for _, inv := range spec.Invs {
			if inv.Mode != "" && inv.Mode != ex.mode {
				ts = append(ts, nil)
				continue
			}
			ts = append(ts, ce.evalBool(inv.Expr))
		}
		return ts
	}
	// 1. establish
	for i, t := range evalInvs(st) {
		if t != nil {
			ex.oblige(st, "inv-init", fmt.Sprintf("loop#%d/inv-init#%d", ord, i+1), t, node)
		}
	}
	// 2. havoc
	roots := ex.assignedRoots(body)
	if post != nil {
		ex.keepRootFields = true
		for o := range ex.assignedRoots(post) {
			roots[o] = true
		}
		ex.keepRootFields = false
	}
	h := st.clone()
	var names []string
	for o := range roots {
		v, ok := o.(*types.Var)
		if !ok {
			continue
		}
		c, ok := ex.cells[v]
		if !ok {
			// package-level variables live in their own cells
			if gc, isGlobal := globalCells[v]; isGlobal {
				c, ok = gc, true
			}
		}
		if !ok {
			continue
		}
		if _, live := st.store[c]; !live {
			continue
		}
		// variables declared inside the body need no havoc
		if v.Pos() >= body.Pos() && v.Pos() <= body.End() {
			continue
		}
		names = append(names, v.Name())
		old := st.store[c]
		if sh, ok := spec.Shapes[v.Name()]; ok {
			dims, _, _, err := parseShape(sh)
			if err != nil {
				panic(err)
			}
			h.store[c] = ex.freshDims(h, dims, varKind, v.Name())
			continue
		}
		h.store[c] = ex.havocFields(h, old, kindOf(v.Type()), v.Name(), ex.rootFields[o])
	}
	sort.Strings(names)
	ex.havocAliases(st, h, roots)
	ex.havocGhostState(h, body)
	if h.ok != nil && ex.touchesAPI(body) {
		h.ok = Fresh("ok", SBool)
	}
	for _, t := range evalInvs(h) {
		if t != nil {
			h.assume(t)
		}
	}
	ex.propagateEqualities(h)
	// 3. body
	bs := h.clone()
	ex.cur = bs
	c := True
	if cond != nil {
		c = ex.evalExpr(bs, cond).(SV).T
	}
	exit := h.clone()
	bs.assume(c)
	exit.assume(Not(c))
	var dec0 *Term
	if spec.Decreases != nil {
		dec0 = ex.cenv(bs, pos).evalTerm(spec.Decreases)
	}
	// no decreases clause: the variant is read off a condition of the form a < b, a <= b, a > b, a >= b over integers
	autoVariant := func(s *State) *Term { return nil }
	if spec.Decreases == nil && cond != nil {
		if be, ok := cond.(*ast.BinaryExpr); ok && isIntT(ex.info.TypeOf(be.X)) && isIntT(ex.info.TypeOf(be.Y)) && pureCond(be) {
			autoVariant = func(s *State) *Term {
				ex.cur = s
				a, b := ex.evalExpr(s, be.X).(SV).T, ex.evalExpr(s, be.Y).(SV).T
				switch be.Op {
				case token.LSS:
					return Sub(b, a)
				case token.LEQ:
					return Add(Sub(b, a), One)
				case token.GTR:
					return Sub(a, b)
				case token.GEQ:
					return Add(Sub(a, b), One)
				}
				return nil
			}
		}
	}
	auto0 := autoVariant(bs)
	if spec.Decreases == nil && auto0 == nil {
		ex.note("termination of loop %d of %s is not proved (no decreases clause, condition not of the form a < b)", ord, ex.fi.Key)
	}
	if pre != nil {
		pre(bs)
	}
	ex.ghostAsserts([]*State{bs}, fmt.Sprintf("loop%d.body", ord), pos, node)
	savedOrd := ex.loopOrd
	outs := ex.execBlock([]*State{bs}, body.List)
	ex.loopOrd = savedOrd + ex.countLoops(body)
	exits := []*State{}
	k := 0
	for _, o := range outs {
		switch o.ctl {
		case ctlNormal, ctlContinue:
			o.ctl = ctlNormal
			if post != nil {
				ex.execStmt(o, post)
			}
			k++
			for i, t := range evalInvs(o) {
				if t != nil {
					ex.oblige(o, "inv-step", fmt.Sprintf("loop#%d/inv-step#%d.%d", ord, i+1, k), t, node)
				}
			}
			if dec0 != nil {
				d1 := ex.cenv(o, pos).evalTerm(spec.Decreases)
				ex.oblige(o, "decreases", fmt.Sprintf("loop#%d/decreases.%d", ord, k), And(Ge(dec0, Zero), Lt(d1, dec0)), node)
			} else if auto0 != nil {
				ex.oblige(o, "termination", fmt.Sprintf("loop#%d/termination.%d", ord, k), And(Ge(auto0, Zero), Lt(autoVariant(o), auto0)), node)
			}
			// canary for the loop body
			ex.obls = append(ex.obls, &Obligation{Name: fmt.Sprintf("%s/loop#%d/canary.%d%s", ex.fnName, ord, k, ex.modeSuffix()), Prop: ex.ct.Props, Func: ex.fi.Key,
				Kind: "canary", Mode: ex.mode, Assumes: append([]*Term{}, o.pc...), Goal: False, Canary: true, Reveal: ex.reveal, Lemmas: ex.lemmas})
		case ctlBreak:
			o.ctl = ctlNormal
			exits = append(exits, o)
		default:
			exits = append(exits, o)
		}
	}
	exits = append([]*State{exit}, exits...)
	return exits
}

// havocContents makes a fresh value for an in-place modification: slice lengths are preserved.
func (ex *Exec) havocContents(st *State, old Val, hint string) Val {
	if x, ok := old.(*SliceV); ok {
		if x.IsV {
			vs := make([]Val, len(x.Vec))
			for i := range vs {
				vs[i] = ex.havocContents(st, x.Vec[i], fmt.Sprintf("%s_%d", hint, i))
			}
			return &SliceV{Elem: x.Elem, Len: x.Len, Vec: vs, IsV: true, Tag: x.Tag}
		}
		nv := ex.freshVal(st, &Kind{K: "slice", Elem: x.Elem}, hint).(*SliceV)
		m := map[*Term]*Term{nv.Len: x.Len}
		ex.substState(st, m)
		r := *nv
		r.Len = x.Len
		r.Tag = x.Tag
		if x.Lens != nil {
			r.Lens = x.Lens
		}
		return &r
	}
	if x, ok := old.(SV); ok {
		if x.Lit != nil || true {
			t := Fresh(hint, x.T.Sort)
			return SV{T: t}
		}
	}
	return ex.havocLike(st, old, nil, hint)
}

// havocLike makes a fresh value of the same shape as old (explicit vectors keep their length).
func (ex *Exec) havocLike(st *State, old Val, k *Kind, hint string) Val {
	switch x := old.(type) {
	case *SliceV:
		if x.IsV && k != nil && k.Fixed {
			vs := make([]Val, len(x.Vec))
			for i := range vs {
				vs[i] = ex.havocLike(st, x.Vec[i], x.Elem, fmt.Sprintf("%s_%d", hint, i))
			}
			return &SliceV{Elem: x.Elem, Len: x.Len, Vec: vs, IsV: true, Tag: x.Tag}
		}
		if x.IsV && x.Elem.K == "slice" && (x.Elem.Elem.K == "slice" || x.Elem.Fixed) {
			panic(unsupported("havoc of nested explicit slice %s needs a shape clause", hint))
		}
		nv := ex.freshVal(st, &Kind{K: "slice", Elem: x.Elem}, hint).(*SliceV)
		nv.Tag = x.Tag
		if x.Lit != nil {
			nv.Lit = Fresh(hint+".lit", SArrBool)
		}
		return nv
	case *StructV:
		f := map[string]Val{}
		for _, fd := range x.K.Fields {
			f[fd.Name] = ex.havocLike(st, x.F[fd.Name], fd.K, hint+"."+fd.Name)
		}
		return &StructV{K: x.K, F: f}
	case *RefV:
		// the pointer itself is unchanged; its pointee is havoced
		if !x.Nil {
			st.store[x.Cell] = ex.havocLike(st, st.store[x.Cell], k.Elem, hint)
		}
		return x
	case SV:
		if k == nil {
			return SV{T: Fresh(hint, x.T.Sort)}
		}
		if k.K == "var" && x.Lit != nil {
			v := ex.freshVal(st, k, hint).(SV)
			v.Lit = Fresh(hint+".lit", SBool)
			st.assume(Imp(v.Lit, Eq(v.T, Zero)))
			return v
		}
		if k == nil || k.K == "obj" || k.K == "unit" {
			return SV{T: Fresh(hint, x.T.Sort)}
		}
		return ex.freshVal(st, k, hint)
	case *ObjV:
		g := map[string]Val{}
		for name, gv := range x.Ghost {
			g[name] = ex.havocLike(st, gv, nil, hint+"."+name)
		}
		if a := adtOf[x.K.Name]; a != nil {
			// a datatype-modelled interface value is immutable: "modified" can only mean replaced by another value
			return &ObjV{K: x.K, ID: Fresh(hint, a.Sort), Ghost: g}
		}
		return &ObjV{K: x.K, ID: x.ID, Ghost: g}
	}
	return ex.freshVal(st, k, hint)
}

func (ex *Exec) execRange(st *State, n *ast.RangeStmt) []*State {
	ex.loopOrd++
	ord := ex.loopOrd
	outs := ex.execRange1(st, n, ord)
	ex.ghostAsserts(outs, fmt.Sprintf("loop%d", ord), n.End(), n)
	return outs
}

func (ex *Exec) execRange1(st *State, n *ast.RangeStmt, ord int) []*State {
	xv := ex.evalExpr(st, n.X)
	var length *Term
	var elemAt func(i *Term) Val
	switch x := xv.(type) {
	case *SliceV:
		length = x.Len
		elemAt = x.elemAt
	case SV: // range over int
		length = x.T
		elemAt = nil
	default:
		if _, isMap := ex.info.TypeOf(n.X).Underlying().(*types.Map); isMap && ex.apiObj != nil {
			// Go randomises map iteration order: constraints emitted inside such a loop come out in a different order
			// on every compilation
			ex.fail("determinism", ex.site("determinism"), "circuit code iterates over a map; the iteration order is randomised, so the emitted constraints are not a function of the dimensions alone", n)
			panic(abortPath{})
		}
		panic(unsupported("range over %T at %s", xv, ex.pos(n)))
	}
	assign := func(s *State, e ast.Expr, v Val) {
		if e == nil {
			return
		}
		if id, ok := e.(*ast.Ident); ok {
			if id.Name == "_" {
				return
			}
			if obj := ex.info.Defs[id]; obj != nil {
				s.store[ex.cellOf(obj)] = v
				return
			}
		}
		ex.storeRef(s, ex.lvalue(s, e), v, n)
	}
	spec := ex.ct.Loops[ord]
	if !length.IsInt() {
		if spec == nil || len(spec.Invs) == 0 {
			ex.fail("loop-invariant-missing", fmt.Sprintf("loop#%d", ord), fmt.Sprintf("range loop %d at %s has symbolic length and no invariant", ord, ex.pos(n)), n)
			panic(abortPath{})
		}
		// desugar with a hidden counter bound to the key variable; the key must be a named variable for invariants
		kid, ok := n.Key.(*ast.Ident)
		var kc *Cell
		kname := "iter"
		if !ok || kid.Name == "_" {
			// no key variable: the iteration counter is the ghost variable `iter`
			if ex.ghostCells == nil {
				ex.ghostCells = map[string]*Cell{}
			}
			kc = newCell("iter")
			ex.ghostCells["iter"] = kc
		} else {
			kobj := ex.info.Defs[kid]
			kc = ex.cellOf(kobj)
			kname = kobj.Name()
		}
		st.store[kc] = SV{T: Zero}
		ex.staticTrue("termination", fmt.Sprintf("loop#%d/termination", ord), "range loop: the hidden counter runs to a length evaluated once", n)
		return ex.execLoopInvRange(st, spec, ord, n, kc, kname, length, elemAt, assign)
	}
	cnt := int(length.Int64())
	work := []*State{st}
	var exits []*State
	savedOrd := ex.loopOrd
	for i := 0; i < cnt; i++ {
		var next []*State
		for _, s := range work {
			assign(s, n.Key, SV{T: IntLit(int64(i))})
			if elemAt != nil && n.Value != nil {
				assign(s, n.Value, elemAt(IntLit(int64(i))))
			}
			ex.loopOrd = savedOrd
			basePC := len(s.pc)
			var cont []*State
			for _, o := range ex.execBlock([]*State{s}, n.Body.List) {
				switch o.ctl {
				case ctlBreak:
					o.ctl = ctlNormal
					exits = append(exits, o)
				case ctlContinue, ctlNormal:
					o.ctl = ctlNormal
					cont = append(cont, o)
				default:
					exits = append(exits, o)
				}
			}
			if m := ex.mergeMany(cont, basePC); m != nil {
				cont = []*State{m}
			}
			next = append(next, cont...)
		}
		work = next
	}
	ex.loopOrd = savedOrd + ex.countLoops(n.Body)
	ex.staticTrue("termination", fmt.Sprintf("loop#%d/termination", ord), fmt.Sprintf("range loop over a literal length %d", cnt), n)
	return append(work, exits...)
}

func (ex *Exec) execLoopInvRange(st *State, spec *LoopSpec, ord int, n *ast.RangeStmt, kc *Cell, kname string, length *Term, elemAt func(*Term) Val, assign func(*State, ast.Expr, Val)) []*State {
	pos := n.Body.Lbrace + 1
	evalInvs := func(s *State) []*Term {
		ex.cur = s
		ce := ex.cenv(s, pos)
		var ts []*Term
		for _, inv := range spec.Invs {
			if inv.Mode != "" && inv.Mode != ex.mode {
				ts = append(ts, nil)
				continue
			}
			ts = append(ts, ce.evalBool(inv.Expr))
		}
		return ts
	}
	for i, t := range evalInvs(st) {
		if t != nil {
			ex.oblige(st, "inv-init", fmt.Sprintf("loop#%d/inv-init#%d", ord, i+1), t, n)
		}
	}
	roots := ex.assignedRoots(n.Body)
	h := st.clone()
	for o := range roots {
		v, ok := o.(*types.Var)
		if !ok {
			continue
		}
		c, ok := ex.cells[v]
		if !ok {
			if gc, isGlobal := globalCells[v]; isGlobal {
				c, ok = gc, true
			}
		}
		if !ok {
			continue
		}
		if _, live := st.store[c]; !live {
			continue
		}
		if v.Pos() >= n.Body.Pos() && v.Pos() <= n.Body.End() {
			continue
		}
		h.store[c] = ex.havocFields(h, st.store[c], kindOf(v.Type()), v.Name(), ex.rootFields[o])
	}
	ex.havocAliases(st, h, roots)
	ki := Fresh(kname, SInt)
	h.store[kc] = SV{T: ki}
	h.assume(Ge(ki, Zero))
	ex.havocGhostState(h, n.Body)
	if h.ok != nil && ex.touchesAPI(n.Body) {
		h.ok = Fresh("ok", SBool)
	}
	for _, t := range evalInvs(h) {
		if t != nil {
			h.assume(t)
		}
	}
	bs := h.clone()
	exit := h.clone()
	bs.assume(Lt(ki, length))
	exit.assume(Ge(ki, length))
	if elemAt != nil && n.Value != nil {
		assign(bs, n.Value, elemAt(ki))
	}
	savedOrd := ex.loopOrd
	outs := ex.execBlock([]*State{bs}, n.Body.List)
	ex.loopOrd = savedOrd + ex.countLoops(n.Body)
	exits := []*State{exit}
	k := 0
	for _, o := range outs {
		switch o.ctl {
		case ctlNormal, ctlContinue:
			o.ctl = ctlNormal
			o.store[kc] = SV{T: Add(ki, One)}
			k++
			for i, t := range evalInvs(o) {
				if t != nil {
					ex.oblige(o, "inv-step", fmt.Sprintf("loop#%d/inv-step#%d.%d", ord, i+1, k), t, n)
				}
			}
		case ctlBreak:
			o.ctl = ctlNormal
			exits = append(exits, o)
		default:
			exits = append(exits, o)
		}
	}
	return exits
}

func (ex *Exec) execGo(st *State, n *ast.GoStmt) []*State {
	ex.note("go statement at %s: spawned goroutine body is verified separately, no interleaving explored", ex.pos(n))
	if _, isLit := n.Call.Fun.(*ast.FuncLit); isLit {
		ex.traceEvent(st, "go-literal")
		return []*State{st}
	}
	fv := ex.evalExpr(st, n.Call.Fun)
	switch f := fv.(type) {
	case SV:
		ex.traceEvent(st, "go", f.T)
	case *FuncV:
		ex.traceEvent(st, "go:"+f.Name)
	}
	return []*State{st}
}

// havocGhostState: a loop body that calls anything or touches a channel may emit ghost trace events and write to
// standard output; the ghost trace and the standard-output ghosts are unknown at the loop head.
func (ex *Exec) havocGhostState(h *State, body ast.Node) {
	found := false
	ast.Inspect(body, func(x ast.Node) bool {
		switch y := x.(type) {
		case *ast.CallExpr, *ast.SendStmt, *ast.GoStmt:
			found = true
		case *ast.UnaryExpr:
			if y.Op == token.ARROW {
				found = true
			}
		}
		return !found
	})
	if !found {
		return
	}
	if _, ok := h.store[theTraceCell]; ok {
		h.store[theTraceCell] = SV{T: Fresh("trace", SInt)}
	}
	if c, ok := ex.ghostCells["stdoutWrites"]; ok {
		if _, live := h.store[c]; live {
			w := Fresh("stdoutWrites", SInt)
			h.assume(Ge(w, Zero))
			h.store[c] = SV{T: w}
		}
	}
	if c, ok := ex.ghostCells["stdoutLast"]; ok {
		if v, live := h.store[c]; live {
			h.store[c] = ex.havocLike(h, v, nil, "stdoutLast")
		}
	}
}

// touchesAPI reports whether a statement can emit constraints (mentions the api value at all).
func (ex *Exec) touchesAPI(n ast.Node) bool {
	found := false
	ast.Inspect(n, func(x ast.Node) bool {
		if id, ok := x.(*ast.Ident); ok {
			if o := ex.info.Uses[id]; o != nil && o == ex.apiObj {
				found = true
			}
		}
		return !found
	})
	return found
}

func identOf(e ast.Expr) *ast.Ident {
	id, _ := e.(*ast.Ident)
	return id
}

// havocAliases: a slice variable havoced by a loop may or may not still alias what it aliased before the loop,
// so everything that shared its backing array before the loop gets unknown contents, and the havoced variable
// itself is treated as a distinct array from then on.
func (ex *Exec) havocAliases(pre, h *State, roots map[types.Object]bool) {
	tags := map[int]bool{}
	rootCells := map[*Cell]bool{}
	for o := range roots {
		if c, ok := ex.cells[o]; ok {
			rootCells[c] = true
			if s, ok := pre.store[c].(*SliceV); ok && s.Tag > 0 {
				tags[s.Tag] = true
				if ns, ok := h.store[c].(*SliceV); ok && ns != s {
					cp := *ns
					cp.Tag = newTag()
					h.store[c] = &cp
				}
			}
		}
	}
	if len(tags) == 0 {
		return
	}
	var rec func(v Val, c *Cell, path []Acc) Val
	rec = func(v Val, c *Cell, path []Acc) Val {
		switch x := v.(type) {
		case *SliceV:
			if tags[x.Tag] {
				ex.frameCheck(&RefV{Cell: c, Path: path}, true, nil)
				nv := ex.havocContents(h, x, c.name).(*SliceV)
				cp := *nv
				cp.Tag = newTag()
				return &cp
			}
		case *StructV:
			var nf map[string]Val
			for k, fv := range x.F {
				if r := rec(fv, c, append(append([]Acc{}, path...), Acc{Field: k})); r != nil {
					if nf == nil {
						nf = map[string]Val{}
						for kk, vv := range x.F {
							nf[kk] = vv
						}
					}
					nf[k] = r
				}
			}
			if nf != nil {
				return &StructV{K: x.K, F: nf}
			}
		}
		return nil
	}
	for c, v := range pre.store {
		if rootCells[c] {
			continue
		}
		if r := rec(v, c, nil); r != nil {
			h.store[c] = r
		}
	}
}

// havocFields havocs only the named fields of a struct value (or of the struct a pointer refers to) when the
// loop body provably touches nothing else of it; otherwise the whole value.
func (ex *Exec) havocFields(st *State, old Val, k *Kind, hint string, fields map[string]bool) Val {
	if len(fields) == 0 || fields[""] {
		return ex.havocLike(st, old, k, hint)
	}
	switch x := old.(type) {
	case *StructV:
		nf := map[string]Val{}
		for name, fv := range x.F {
			nf[name] = fv
		}
		for _, fd := range x.K.Fields {
			if fields[fd.Name] {
				nf[fd.Name] = ex.havocLike(st, x.F[fd.Name], fd.K, hint+"."+fd.Name)
			}
		}
		return &StructV{K: x.K, F: nf}
	case *RefV:
		if !x.Nil && len(x.Path) == 0 {
			if sv, ok := st.store[x.Cell].(*StructV); ok {
				st.store[x.Cell] = ex.havocFields(st, sv, sv.K, hint, fields)
				return x
			}
		}
	}
	return ex.havocLike(st, old, k, hint)
}

// runDefers executes deferred function literals (LIFO) at a return; they may update named results.
func (ex *Exec) runDefers(st *State) []*State {
	if len(st.defers) == 0 {
		return []*State{st}
	}
	ds := st.defers
	st.defers = nil
	states := []*State{st}
	for i := len(ds) - 1; i >= 0; i-- {
		lit := ds[i].Call.Fun.(*ast.FuncLit)
		var next []*State
		for _, s := range states {
			s.ctl = ctlNormal
			outs := ex.execBlock([]*State{s}, lit.Body.List)
			for _, o := range outs {
				if o.ctl == ctlPanic {
					next = append(next, o)
					continue
				}
				o.ctl = ctlReturn
				next = append(next, o)
			}
		}
		states = next
	}
	for _, s := range states {
		if s.ctl != ctlReturn {
			continue
		}
		// named results may have been changed by the deferred closures
		for i, rn := range ex.resultNames {
			if rn != "" && i < len(s.ret) {
				nr := append([]Val{}, s.ret...)
				nr[i] = ex.namedResult(s, rn)
				s.ret = nr
			}
		}
	}
	return states
}

// traceMatters: the trace frame is enforced for functions whose contract mentions the trace at all.
func (ex *Exec) traceMatters() bool {
	for _, e := range ex.ct.Ensures {
		if strings.Contains(e.Text, "trace") {
			return true
		}
	}
	return false
}

// splitGoal splits a large conjunctive goal (possibly under one implication) into separate obligations.
func splitGoal(g *Term) []*Term {
	if g.Op == "and" && len(g.Args) > 4 {
		return g.Args
	}
	if g.Op == "=>" && len(g.Args) == 2 && g.Args[1].Op == "and" && len(g.Args[1].Args) > 4 {
		var out []*Term
		for _, c := range g.Args[1].Args {
			out = append(out, Imp(g.Args[0], c))
		}
		return out
	}
	return []*Term{g}
}
