package main

import (
	"go/ast"
	"go/parser"
	"go/token"
)

func parseWithComments(fset *token.FileSet, filename string, src []byte) (*ast.File, error) {
	return parser.ParseFile(fset, filename, src, parser.ParseComments|parser.AllErrors)
}
