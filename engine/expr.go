package main

import (
	"fmt"
	"go/ast"
	"go/token"
	"go/types"
	"math/big"
	"strings"

	"golang.org/x/tools/go/types/typeutil"
)

func (ex *Exec) evalExpr(st *State, e ast.Expr) Val {
	ex.cur = st
	if tv, ok := ex.info.Types[e]; ok && tv.Value != nil {
		if b, isB := tv.Type.Underlying().(*types.Basic); isB && b.Info()&(types.IsInteger|types.IsBoolean|types.IsString) != 0 {
			return constVal(tv.Value, tv.Type)
		}
		if b, isB := tv.Type.Underlying().(*types.Basic); isB && b.Info()&types.IsFloat != 0 {
			return SV{T: Var("float$"+sanitize(tv.Value.ExactString()), SInt)}
		}
	}
	switch n := e.(type) {
	case *ast.BasicLit:
		switch n.Kind {
		case token.INT:
			v, ok := new(big.Int).SetString(n.Value, 0)
			if !ok {
				panic(unsupported("int literal %s", n.Value))
			}
			return SV{T: BigLit(v)}
		case token.STRING:
			s := n.Value
			if len(s) >= 2 {
				s = s[1 : len(s)-1]
			}
			return SV{T: StrLit(s)}
		}
		if n.Kind == token.FLOAT {
			// floating-point literals are opaque constants (no float arithmetic is modelled)
			return SV{T: Var("float$"+sanitize(n.Value), SInt)}
		}
		panic(unsupported("literal %s at %s", n.Value, ex.pos(e)))
	case *ast.ParenExpr:
		return ex.evalExpr(st, n.X)
	case *ast.Ident:
		return ex.evalIdent(st, n)
	case *ast.SelectorExpr:
		return ex.evalSelector(st, n)
	case *ast.StarExpr:
		v := ex.evalExpr(st, n.X)
		if o, isObj := v.(*ObjV); isObj {
			return o // a pointer to an opaque library object is modelled by the object itself
		}
		return ex.load(st, v.(*RefV), n)
	case *ast.UnaryExpr:
		return ex.evalUnary(st, n)
	case *ast.BinaryExpr:
		if n.Op == token.LAND || n.Op == token.LOR {
			a := ex.evalExpr(st, n.X).(SV).T
			// the right operand is evaluated under the guard of the left
			saved := len(st.pc)
			if n.Op == token.LAND {
				st.assume(a)
			} else {
				st.assume(Not(a))
			}
			if (n.Op == token.LAND && a.IsFalse()) || (n.Op == token.LOR && a.IsTrue()) {
				st.pc = st.pc[:saved]
				return SV{T: a}
			}
			b := ex.evalExpr(st, n.Y).(SV).T
			// keep assumptions added by the right operand guarded
			extra := append([]*Term{}, st.pc[saved:]...)
			st.pc = st.pc[:saved]
			g := a
			if n.Op == token.LOR {
				g = Not(a)
			}
			for _, t := range extra {
				if t != g {
					st.assume(Imp(g, t))
				}
			}
			if n.Op == token.LAND {
				return SV{T: And(a, b)}
			}
			return SV{T: Or(a, b)}
		}
		a := ex.evalExpr(st, n.X)
		b := ex.evalExpr(st, n.Y)
		return ex.binop(st, n.Op, a, b, ex.info.TypeOf(n.X), ex.info.TypeOf(n.Y), n)
	case *ast.CallExpr:
		return ex.evalCall(st, n)
	case *ast.IndexExpr:
		x := ex.evalExpr(st, n.X)
		if r, ok := x.(*RefV); ok {
			x = ex.load(st, r, n)
		}
		i := ex.evalExpr(st, n.Index)
		switch s := x.(type) {
		case *SliceV:
			idx := i.(SV).T
			ex.boundsCheck(st, idx, s.Len, n)
			return s.elemAt(idx)
		case *ObjV:
			// maps (and other opaque containers): the contents are abstract — a read yields an unconstrained value,
			// which over-approximates every history of writes, by this or by any other goroutine
			ex.note("index of opaque %s at %s modelled as uninterpreted", s.K.Name, ex.pos(n))
			if tup, isTuple := ex.info.TypeOf(n).(*types.Tuple); isTuple && tup.Len() == 2 {
				return &TupleV{[]Val{ex.freshVal(st, kindOf(tup.At(0).Type()), "idx"), SV{T: Fresh("ok", SBool)}}}
			}
			return ex.freshVal(st, kindOf(ex.info.TypeOf(n)), "idx")
		}
		panic(unsupported("index of %T at %s", x, ex.pos(n)))
	case *ast.SliceExpr:
		x := ex.evalExpr(st, n.X)
		if r, ok := x.(*RefV); ok {
			x = ex.load(st, r, n)
		}
		s, ok := x.(*SliceV)
		if !ok {
			panic(unsupported("slice of %T at %s", x, ex.pos(n)))
		}
		lo, hi := Zero, s.Len
		if n.Low != nil {
			lo = ex.evalExpr(st, n.Low).(SV).T
		}
		if n.High != nil {
			hi = ex.evalExpr(st, n.High).(SV).T
		}
		if n.Max != nil {
			panic(unsupported("3-index slice"))
		}
		return ex.subslice(n, s, lo, hi)
	case *ast.CompositeLit:
		return ex.evalComposite(st, n, ex.info.TypeOf(n))
	case *ast.FuncLit:
		return &FuncV{Name: "lit@" + ex.pos(n), Lit: n}
	case *ast.TypeAssertExpr:
		v := ex.evalExpr(st, n.X)
		if o, ok := v.(*ObjV); ok && n.Type != nil && adtOf[o.K.Name] != nil {
			tt := ex.info.TypeOf(n.Type)
			d := boxDeclOfType(tt)
			if d == nil {
				panic(unsupported("type assertion to %s on a datatype-modelled interface at %s", tt, ex.pos(n)))
			}
			r, tester := ex.unboxValue(st, o.ID, d, namedStructOf(tt), True)
			if tup, isTuple := ex.info.TypeOf(n).(*types.Tuple); isTuple && tup.Len() == 2 {
				return &TupleV{[]Val{&RefV{Cell: r.Cell, NilT: Not(tester)}, SV{T: tester}}}
			}
			ex.oblige(st, "type-assertion", ex.site("type-assertion"), tester, n)
			st.assume(tester)
			return r
		}
		return v
	case *ast.KeyValueExpr:
		panic(unsupported("key-value outside composite literal"))
	}
	panic(unsupported("expression %T at %s", e, ex.pos(e)))
}

func (ex *Exec) evalIdent(st *State, n *ast.Ident) Val {
	switch n.Name {
	case "nil":
		if _, isNil := ex.info.Uses[n].(*types.Nil); isNil {
			return SV{T: Zero}
		}
	case "true":
		return SV{T: True}
	case "false":
		return SV{T: False}
	}
	obj := ex.info.Uses[n]
	if obj == nil {
		obj = ex.info.Defs[n]
	}
	switch o := obj.(type) {
	case *types.Var:
		if o.Pkg() != nil && o.Parent() == o.Pkg().Scope() {
			return ex.globalVar(st, o)
		}
		c := ex.cellOf(o)
		v, ok := st.store[c]
		if !ok {
			if o.Pos() < ex.fi.Body.Pos() || o.Pos() > ex.fi.Body.End() {
				// captured variable of an enclosing function: an arbitrary value
				v = ex.freshVal(st, kindOf(o.Type()), o.Name())
				st.store[c] = v
				if ex.entry != nil {
					ex.entry.store[c] = v
				}
				return v
			}
			panic(unsupported("read of variable %s before assignment at %s", o.Name(), ex.pos(n)))
		}
		return v
	case *types.Const:
		return constVal(o.Val(), o.Type())
	case *types.Func:
		return &FuncV{Name: funcKey(o)}
	case *types.Nil:
		return SV{T: Zero}
	}
	panic(unsupported("identifier %s at %s", n.Name, ex.pos(n)))
}

func (ex *Exec) evalSelector(st *State, n *ast.SelectorExpr) Val {
	if sel, ok := ex.info.Selections[n]; ok {
		switch sel.Kind() {
		case types.FieldVal:
			x := ex.evalExpr(st, n.X)
			// embedded promotion is not used in the repo's verified code
			return ex.fieldOf(st, x, n.Sel.Name, nil)
		case types.MethodVal:
			return &FuncV{Name: funcKey(sel.Obj().(*types.Func)), Caps: map[string]Val{"recv": ex.evalExpr(st, n.X)}}
		}
	}
	// qualified identifier
	obj := ex.info.Uses[n.Sel]
	switch o := obj.(type) {
	case *types.Var:
		return ex.globalVar(st, o)
	case *types.Const:
		return constVal(o.Val(), o.Type())
	case *types.Func:
		return &FuncV{Name: funcKey(o)}
	}
	panic(unsupported("selector %s at %s", n.Sel.Name, ex.pos(n)))
}

func (ex *Exec) evalUnary(st *State, n *ast.UnaryExpr) Val {
	switch n.Op {
	case token.NOT:
		return SV{T: Not(ex.evalExpr(st, n.X).(SV).T)}
	case token.SUB:
		return ex.arithResult(st, SV{T: App("-", SInt, ex.evalExpr(st, n.X).(SV).T)}, ex.info.TypeOf(n), n)
	case token.ADD:
		return ex.evalExpr(st, n.X)
	case token.AND:
		if cl, ok := n.X.(*ast.CompositeLit); ok {
			v := ex.evalComposite(st, cl, ex.info.TypeOf(cl))
			c := newCell("new")
			st.store[c] = v
			return &RefV{Cell: c}
		}
		if id, ok := n.X.(*ast.Ident); ok {
			if v, ok := ex.info.Uses[id].(*types.Var); ok && v.Pkg() != nil && v.Parent() == v.Pkg().Scope() {
				ex.globalVar(st, v)
				return &RefV{Cell: globalCells[v]}
			}
		}
		return ex.lvalue(st, n.X)
	case token.ARROW:
		// channel receive: modelled by ghost state on the channel object (see jobs contracts)
		ch := ex.evalExpr(st, n.X)
		return ex.chanRecv(st, ch, n)
	}
	panic(unsupported("unary %s at %s", n.Op, ex.pos(n)))
}

func isIntT(t types.Type) bool {
	b, ok := t.Underlying().(*types.Basic)
	return ok && b.Info()&types.IsInteger != 0
}

func isUnsigned(t types.Type) bool {
	b, ok := t.Underlying().(*types.Basic)
	return ok && b.Info()&types.IsUnsigned != 0
}

func (ex *Exec) binop(st *State, op token.Token, a, b Val, ta, tb types.Type, node ast.Node) Val {
	switch op {
	case token.EQL, token.NEQ:
		var t *Term
		if isVariableType(ta) || isVariableType(tb) {
			// comparison of interface values: only `v == 0` / `v != 0` against the untyped constant is modelled
			va, vb := a.(SV), b.(SV)
			var x SV
			var c *Term
			if isVariableType(ta) && !isVariableType(tb) {
				x, c = va, vb.T
			} else if isVariableType(tb) && !isVariableType(ta) {
				x, c = vb, va.T
			} else {
				panic(unsupported("comparison of two frontend.Variable values at %s", ex.pos(node)))
			}
			if !(c.IsInt() && c.Int.Sign() == 0) {
				panic(unsupported("frontend.Variable compared with a constant other than 0 at %s", ex.pos(node)))
			}
			if x.Lit != nil {
				t = x.Lit
			} else {
				t = ex.unknownLit(x)
			}
		} else {
			t = ex.valEq(a, b, nil)
		}
		if op == token.NEQ {
			t = Not(t)
		}
		return SV{T: t}
	}
	x, y := a.(SV).T, b.(SV).T
	switch op {
	case token.ADD:
		if x.Sort == SStr {
			return SV{T: App("str.concat", SStr, x, y)}
		}
		return ex.arithResult(st, SV{T: Add(x, y)}, ta, node)
	case token.SUB:
		return ex.arithResult(st, SV{T: Sub(x, y)}, ta, node)
	case token.MUL:
		return ex.arithResult(st, SV{T: Mul(x, y)}, ta, node)
	case token.QUO, token.REM:
		g := And(Ge(x, Zero), Gt(y, Zero))
		if !g.IsTrue() {
			ex.oblige(st, "arith-domain", ex.site("arith-domain"), g, node)
			st.assume(g)
		}
		if op == token.QUO {
			return SV{T: Div(x, y)}
		}
		return SV{T: Mod(x, y)}
	case token.LSS:
		return SV{T: Lt(x, y)}
	case token.LEQ:
		return SV{T: Le(x, y)}
	case token.GTR:
		return SV{T: Gt(x, y)}
	case token.GEQ:
		return SV{T: Ge(x, y)}
	case token.SHL:
		if y.IsInt() {
			return ex.arithResult(st, SV{T: Mul(x, BigLit(new(big.Int).Lsh(big.NewInt(1), uint(y.Int64()))))}, ta, node)
		}
		g := And(Ge(y, Zero), Lt(y, IntLit(63)))
		ex.oblige(st, "arith-domain", ex.site("shift-range"), g, node)
		st.assume(g)
		return ex.arithResult(st, SV{T: Mul(x, App("bits.pow2", SInt, y))}, ta, node)
	case token.SHR:
		g := Ge(x, Zero)
		if !g.IsTrue() {
			ex.oblige(st, "arith-domain", ex.site("arith-domain"), g, node)
			st.assume(g)
		}
		if y.IsInt() {
			return SV{T: Div(x, BigLit(new(big.Int).Lsh(big.NewInt(1), uint(y.Int64()))))}
		}
		return SV{T: Div(x, App("bits.pow2", SInt, y))}
	case token.AND:
		// supported masks: 1, 2^k-1 (literal), and single bit 2^k (symbolic k via pow2)
		g := Ge(x, Zero)
		if !g.IsTrue() {
			ex.oblige(st, "arith-domain", ex.site("arith-domain"), g, node)
			st.assume(g)
		}
		if y.IsInt() {
			m := new(big.Int).Add(y.Int, big.NewInt(1))
			if m.Sign() > 0 && new(big.Int).And(m, y.Int).Sign() == 0 { // y = 2^k - 1
				return SV{T: Mod(x, BigLit(m))}
			}
			if y.Int.Sign() > 0 && new(big.Int).And(y.Int, new(big.Int).Sub(y.Int, big.NewInt(1))).Sign() == 0 { // y = 2^k
				return SV{T: Mul(Mod(Div(x, y), IntLit(2)), y)}
			}
		}
		if y.Op == "*" && len(y.Args) == 2 && y.Args[0] == One && y.Args[1].Op == "bits.pow2" {
			y = y.Args[1]
		}
		if y.Op == "bits.pow2" {
			k := y.Args[0]
			return SV{T: Mul(App("bits.bit", SInt, x, k), y)}
		}
		panic(unsupported("bitwise & with non-mask operand at %s", ex.pos(node)))
	}
	panic(unsupported("binary operator %s at %s", op, ex.pos(node)))
}

// arithResult is the value of an integer +, -, *, << of static type t whose mathematical result is v: unsigned
// results wrap (wrapInt); a signed result must lie in the type's range — an `overflow` obligation where it stands,
// assumed afterwards (so that integers may be treated as mathematical in everything that follows). Functions
// whose contract says `opt no-overflow` keep the old behaviour and list it as an assumption.
func (ex *Exec) arithResult(st *State, v SV, t types.Type, node ast.Node) Val {
	if t == nil {
		return v
	}
	b, ok := t.Underlying().(*types.Basic)
	if !ok || b.Info()&types.IsInteger == 0 || b.Info()&types.IsUnsigned != 0 || b.Info()&types.IsUntyped != 0 {
		return ex.wrapInt(v, t)
	}
	k := kindOf(t)
	if k.Lo == "" {
		return v
	}
	lo, _ := new(big.Int).SetString(k.Lo, 10)
	hi, _ := new(big.Int).SetString(k.Hi, 10)
	if v.T.IsInt() {
		if v.T.Int.Cmp(lo) >= 0 && v.T.Int.Cmp(hi) <= 0 {
			return v
		}
	}
	if ex.ct != nil && ex.ct.Opts["no-overflow"] != "" {
		ex.note("signed integer arithmetic in %s treated as mathematical (opt no-overflow)", ex.fi.Key)
		return v
	}
	g := And(Le(BigLit(lo), v.T), Le(v.T, BigLit(hi)))
	if !g.IsTrue() {
		ex.oblige(st, "overflow", ex.site("overflow"), g, node)
		st.assume(g)
	}
	return v
}

// wrapInt applies modular wrap-around for unsigned fixed-width results when the value may exceed the range.
func (ex *Exec) wrapInt(v SV, t types.Type) Val {
	if t == nil {
		return v
	}
	b, ok := t.Underlying().(*types.Basic)
	if !ok {
		return v
	}
	var w uint
	switch b.Kind() {
	case types.Uint8:
		w = 8
	case types.Uint16:
		w = 16
	case types.Uint32:
		w = 32
	case types.Uint64, types.Uint:
		w = 64
	default:
		return v // signed/untyped: mathematical (overflow of int is reported separately when opt overflow is on)
	}
	if v.T.IsInt() && v.T.Int.Sign() >= 0 && v.T.Int.BitLen() <= int(w) {
		return v
	}
	return SV{T: Mod(v.T, BigLit(new(big.Int).Lsh(big.NewInt(1), w)))}
}

// coerce models implicit conversions at assignment boundaries.
func (ex *Exec) coerce(st *State, v Val, from, to types.Type) Val {
	if to == nil || from == nil {
		return v
	}
	if b, ok := from.(*types.Basic); ok && b.Kind() == types.UntypedNil {
		k := kindOf(to)
		switch k.K {
		case "slice":
			return mkVec(k.Elem, nil)
		case "ptr":
			return &RefV{Nil: true}
		case "obj":
			return zeroVal(k)
		}
		return v
	}
	// a pointer to a boxed struct stored in an interface modelled as a datatype (adt.go)
	if tk := kindOf(to); tk.K == "obj" && adtOf[tk.Name] != nil {
		if r, ok := v.(*RefV); ok {
			if d := boxDeclOfType(from); d != nil {
				return ex.box(st, r, d, tk, nil)
			}
			panic(unsupported("%s stored in %s, which is modelled as a datatype, has no box declaration", from, tk.Name))
		}
	}
	// a repository struct (or pointer to one) stored in an interface: an opaque object identified by its fields
	if _, toIface := to.Underlying().(*types.Interface); toIface && !isVariableType(to) && !isErrorType(to) {
		if sv, ok := v.(*StructV); ok {
			var ts []*Term
			g := map[string]Val{}
			for _, fd := range sv.K.Fields {
				g[fd.Name] = sv.F[fd.Name]
				switch fv := sv.F[fd.Name].(type) {
				case SV:
					if fv.T.Sort == SInt {
						ts = append(ts, fv.T)
					} else if fv.T.Sort == SStr {
						ts = append(ts, App("str.id", SInt, fv.T))
					}
				case *ObjV:
					ts = append(ts, fv.ID)
				case *RefV:
					if fv.Cell != nil {
						ts = append(ts, IntLit(int64(1000000+fv.Cell.id)))
					}
				}
			}
			for len(ts) < 3 {
				ts = append(ts, Zero)
			}
			return &ObjV{K: kindOf(to), ID: App("box."+shortName(sv.K.Name), SInt, ts[:3]...), Ghost: g}
		}
	}
	if isVariableType(to) && !isVariableType(from) {
		sv, ok := v.(SV)
		if !ok {
			if o, isObj := v.(*ObjV); isObj {
				return SV{T: o.ID, Lit: False}
			}
			panic(unsupported("conversion of %T to frontend.Variable", v))
		}
		t := sv.T
		if !(t.IsInt() && t.Int.Sign() >= 0 && t.Int.Cmp(fieldP) < 0) {
			t = Mod(t, ex.P)
		}
		lit := False
		if b, isB := from.Underlying().(*types.Basic); isB && (b.Kind() == types.Int || b.Kind() == types.UntypedInt) && !isBigInt(from) {
			lit = Eq(sv.T, Zero)
		}
		return SV{T: t, Lit: lit}
	}
	return v
}

func (ex *Exec) evalComposite(st *State, n *ast.CompositeLit, t types.Type) Val {
	k := kindOf(t)
	switch k.K {
	case "struct":
		f := map[string]Val{}
		for _, fd := range k.Fields {
			f[fd.Name] = zeroVal(fd.K)
		}
		stT := t.Underlying().(*types.Struct)
		for i, el := range n.Elts {
			if kv, ok := el.(*ast.KeyValueExpr); ok {
				name := kv.Key.(*ast.Ident).Name
				var ft types.Type
				for j := 0; j < stT.NumFields(); j++ {
					if stT.Field(j).Name() == name {
						ft = stT.Field(j).Type()
					}
				}
				f[name] = ex.coerce(st, ex.evalElt(st, kv.Value, ft), ex.info.TypeOf(kv.Value), ft)
			} else {
				ft := stT.Field(i).Type()
				f[stT.Field(i).Name()] = ex.coerce(st, ex.evalElt(st, el, ft), ex.info.TypeOf(el), ft)
			}
		}
		return &StructV{K: k, F: f}
	case "slice":
		var et types.Type
		switch u := t.Underlying().(type) {
		case *types.Slice:
			et = u.Elem()
		case *types.Array:
			et = u.Elem()
		}
		var vs []Val
		for _, el := range n.Elts {
			if _, ok := el.(*ast.KeyValueExpr); ok {
				panic(unsupported("indexed slice literal at %s", ex.pos(n)))
			}
			vs = append(vs, ex.coerce(st, ex.evalElt(st, el, et), ex.info.TypeOf(el), et))
		}
		if k.Fixed {
			for len(vs) < k.N {
				vs = append(vs, zeroVal(k.Elem))
			}
		}
		return mkVec(k.Elem, vs)
	case "obj":
		// external struct or map literal: opaque object whose ghost fields are the given fields
		g := map[string]Val{}
		for _, el := range n.Elts {
			if kv, ok := el.(*ast.KeyValueExpr); ok {
				if id, ok := kv.Key.(*ast.Ident); ok {
					g[id.Name] = ex.evalExpr(st, kv.Value)
				} else if bl, ok := kv.Key.(*ast.BasicLit); ok && bl.Kind == token.STRING {
					g["k_"+strings.Trim(bl.Value, `"`)] = ex.evalExpr(st, kv.Value)
				} else {
					ex.evalExpr(st, kv.Value)
				}
			} else {
				ex.evalExpr(st, el)
			}
		}
		return &ObjV{K: k, ID: Fresh("lit."+shortName(k.Name), SInt), Ghost: g}
	}
	if _, isMap := t.Underlying().(*types.Map); isMap {
		for _, e := range n.Elts {
			if kv, ok := e.(*ast.KeyValueExpr); ok {
				ex.evalExpr(st, kv.Key)
				if _, nested := kv.Value.(*ast.CompositeLit); !nested {
					ex.evalExpr(st, kv.Value)
				}
			}
		}
		return &ObjV{K: k, ID: Fresh("make."+k.Name, SInt), Ghost: map[string]Val{}}
	}
	panic(unsupported("composite literal of kind %s at %s", k, ex.pos(n)))
}

func shortName(s string) string {
	if i := strings.LastIndex(s, "/"); i >= 0 {
		return s[i+1:]
	}
	return s
}

// evalElt evaluates a composite-literal element, handling elided inner literal types.
func (ex *Exec) evalElt(st *State, e ast.Expr, t types.Type) Val {
	if cl, ok := e.(*ast.CompositeLit); ok && cl.Type == nil {
		if p, isPtr := t.Underlying().(*types.Pointer); isPtr {
			v := ex.evalComposite(st, cl, p.Elem())
			c := newCell("new")
			st.store[c] = v
			return &RefV{Cell: c}
		}
		return ex.evalComposite(st, cl, t)
	}
	return ex.evalExpr(st, e)
}

// ---------- slices ----------

func (ex *Exec) subslice(node ast.Node, s *SliceV, lo, hi *Term) Val {
	st := ex.cur
	if node != nil {
		g := And(Le(Zero, lo), Le(lo, hi), Le(hi, s.Len))
		if !g.IsTrue() {
			ex.oblige(st, "bounds", ex.site("bounds"), g, node)
			st.assume(g)
		}
	}
	if lo == Zero && hi == s.Len {
		return s
	}
	n := Sub(hi, lo)
	if d, ok := constDiff(hi, lo); ok {
		n = IntLit(d)
	}
	if n.IsInt() && n.Int64() <= 4096 {
		cnt := int(n.Int64())
		vs := make([]Val, cnt)
		for j := 0; j < cnt; j++ {
			vs[j] = s.elemAt(Add(lo, IntLit(int64(j))))
		}
		return &SliceV{Elem: s.Elem, Len: n, Vec: vs, IsV: true, Tag: -1, ViewTag: s.Tag, ViewOff: lo}
	}
	m := s.materialize()
	if m.Elem.K == "slice" {
		panic(unsupported("symbolic sub-slice of nested slice"))
	}
	r := &SliceV{Elem: s.Elem, Len: n, Arr: Fresh("sub", m.Arr.Sort), Tag: -1, ViewTag: s.Tag, ViewOff: lo}
	k := Var(fmt.Sprintf("k!q%d", nextQ()), SInt)
	def := Eq(Select(r.Arr, k), Ite(And(Le(Zero, k), Lt(k, n)), Select(m.Arr, Add(k, lo)), zeroTerm(s.Elem)))
	st.assume(Quant("forall", []*Term{k}, def, []*Term{Select(r.Arr, k)}))
	return r
}

func (ex *Exec) appendVals(st *State, s *SliceV, elems []Val) *SliceV {
	if s.IsV {
		nv := append(append([]Val{}, s.Vec...), elems...)
		return mkVec(s.Elem, nv)
	}
	r := s
	for j, e := range elems {
		r = r.setElem(Add(s.Len, IntLit(int64(j))), e)
	}
	rr := *r
	rr.Len = Add(s.Len, IntLit(int64(len(elems))))
	rr.Tag = newTag()
	return &rr
}

func (ex *Exec) appendSlice(st *State, s, t *SliceV) *SliceV {
	if t.IsV {
		return ex.appendVals(st, s, t.Vec)
	}
	if t.Len.IsInt() && t.Len.Int64() <= 64 {
		return ex.appendVals(st, s, t.explode().Vec)
	}
	sm, tm := s.materialize(), t.materialize()
	if sm.Elem.K == "slice" {
		panic(unsupported("symbolic append of nested slices"))
	}
	r := &SliceV{Elem: s.Elem, Len: Add(sm.Len, tm.Len), Arr: Fresh("cat", tm.Arr.Sort), Tag: newTag()}
	k := Var(fmt.Sprintf("k!q%d", nextQ()), SInt)
	def := Eq(Select(r.Arr, k), Ite(Lt(k, sm.Len), Select(sm.Arr, k), Ite(Lt(k, r.Len), Select(tm.Arr, Sub(k, sm.Len)), zeroTerm(s.Elem))))
	st.assume(Quant("forall", []*Term{k}, def, []*Term{Select(r.Arr, k)}))
	return r
}

// ---------- globals ----------

var globalCells = map[types.Object]*Cell{}

func (ex *Exec) globalVar(st *State, o *types.Var) Val {
	c, ok := globalCells[o]
	if !ok {
		c = newCell("g." + o.Name())
		globalCells[o] = c
	}
	if v, ok := st.store[c]; ok {
		return v
	}
	v := ex.globalInit(st, o)
	st.store[c] = v
	if ex.entry != nil {
		if _, ok := ex.entry.store[c]; !ok {
			ex.entry.store[c] = v
		}
	}
	return v
}

// globalInit models a package-level variable: shape from its initialiser, contents abstract
// (named uninterpreted constants), struct initialisers evaluated.
func (ex *Exec) globalInit(st *State, o *types.Var) Val {
	name := "g." + shortName(o.Pkg().Path()) + "." + o.Name()
	var init ast.Expr
	var declInfo *types.Info
	if pkg := ex.prog.ByPath[o.Pkg().Path()]; pkg != nil {
		declInfo = pkg.TypesInfo
		for _, f := range pkg.Syntax {
			for _, d := range f.Decls {
				gd, ok := d.(*ast.GenDecl)
				if !ok || gd.Tok != token.VAR {
					continue
				}
				for _, sp := range gd.Specs {
					vs := sp.(*ast.ValueSpec)
					for i, id := range vs.Names {
						if pkg.TypesInfo.Defs[id] == o && i < len(vs.Values) {
							init = vs.Values[i]
						}
					}
				}
			}
		}
	}
	k := kindOf(o.Type())
	switch k.K {
	case "slice":
		cl, ok := init.(*ast.CompositeLit)
		if !ok {
			break
		}
		if intLeaves(cl) {
			// small tables of integer literals (possibly through a repository helper applied to integer literals,
			// e.g. toBits(0x8000…)) are evaluated concretely from their initialiser
			saved := ex.info
			ex.info = declInfo
			defer func() { ex.info = saved }()
			ex.note("package-level table %s evaluated concretely from its initialiser", o.Name())
			return ex.evalComposite(st, cl, o.Type())
		}
		dims := literalDims(cl)
		ex.note("package-level table %s: shape %v extracted from its initialiser, contents abstract (%s)", o.Name(), dims, name)
		return ex.abstractTable(st, k, dims, name)
	case "struct":
		if cl, ok := init.(*ast.CompositeLit); ok {
			saved := ex.info
			ex.info = declInfo
			defer func() { ex.info = saved }()
			return ex.evalComposite(st, cl, o.Type())
		}
	}
	if k.K == "obj" && ex.prog.ByPath[o.Pkg().Path()] == nil {
		// a package-level value of a library (binary.BigEndian, os.Stdout, …): a named constant, so that contracts can
		// tell which one was passed (global("binary.BigEndian")); nothing else is known about it
		fv := ex.freshVal(st, k, name).(*ObjV)
		return &ObjV{K: fv.K, ID: Var(name, SInt), Ghost: fv.Ghost}
	}
	if k.K == "err" && ex.prog.ByPath[o.Pkg().Path()] == nil {
		// a library's sentinel error (http.ErrServerClosed, io.EOF, …): a named non-nil constant
		t := Var(name, SInt)
		st.assume(Not(Eq(t, Zero)))
		return SV{T: t}
	}
	ex.note("package-level variable %s modelled as an unconstrained value", name)
	return ex.freshVal(st, k, name)
}

// literalDims returns the dimensions of a (rectangular) nested composite literal; -1 if ragged/unknown.
func literalDims(cl *ast.CompositeLit) []int {
	dims := []int{len(cl.Elts)}
	var inner []int
	for i, e := range cl.Elts {
		icl, ok := e.(*ast.CompositeLit)
		if !ok {
			return dims
		}
		d := literalDims(icl)
		if i == 0 {
			inner = d
		} else if fmt.Sprint(d) != fmt.Sprint(inner) {
			return append(dims, -1)
		}
	}
	return append(dims, inner...)
}

func (ex *Exec) abstractTable(st *State, k *Kind, dims []int, name string) Val {
	// explicit outer vectors of symbolic rows
	depth := 0
	for kk := k; kk.K == "slice"; kk = kk.Elem {
		depth++
	}
	if k.Fixed && k.N > 0 && len(dims) == 0 {
		dims = []int{k.N}
	}
	var build func(kk *Kind, d int, base *Term) Val
	build = func(kk *Kind, d int, base *Term) Val {
		if kk.K != "slice" {
			return SV{T: base, Lit: False}
		}
		n := -1
		if d < len(dims) {
			n = dims[d]
		}
		if kk.Fixed {
			n = kk.N
		}
		if n < 0 {
			panic(unsupported("table %s has ragged shape", name))
		}
		if kk.Elem.K != "slice" {
			// innermost row: array form
			s := &SliceV{Elem: kk.Elem, Len: IntLit(int64(n)), Arr: base, Tag: newTag()}
			if n <= 64 {
				return s.explode()
			}
			return s
		}
		vs := make([]Val, n)
		for i := range vs {
			vs[i] = build(kk.Elem, d+1, Select(base, IntLit(int64(i))))
		}
		r := mkVec(kk.Elem, vs)
		if kk.Elem.Elem != nil && kk.Elem.Elem.K != "slice" && d+1 < len(dims) && dims[d+1] >= 0 {
			r.Base = base
			r.BaseLens = ConstArr(SArrInt, IntLit(int64(dims[d+1])))
		}
		return r
	}
	var sortFor func(kk *Kind) *Sort
	sortFor = func(kk *Kind) *Sort {
		if kk.K == "slice" {
			return SArr(SInt, sortFor(kk.Elem))
		}
		return kk.sortOf()
	}
	base := Var(name, sortFor(k))
	v := build(k, 0, base)
	// range invariant for Variable tables: entries are field elements (constants are reduced by gnark)
	return v
}

// ---------- channel receive (ghost) ----------

func (ex *Exec) chanRecv(st *State, ch Val, n ast.Node) Val {
	o, ok := ch.(*ObjV)
	if !ok {
		panic(unsupported("receive from %T", ch))
	}
	// event: received from channel; blocks until closed or sent. Recorded in the ghost trace.
	ex.traceEvent(st, "recv", o.ID)
	// the value received may have been sent by any goroutine: unconstrained (struct{} channels carry nothing)
	if ue, ok := n.(*ast.UnaryExpr); ok {
		if ct, ok := ex.info.TypeOf(ue.X).Underlying().(*types.Chan); ok {
			k := kindOf(ct.Elem())
			if !(k.K == "struct" && len(k.Fields) == 0) {
				ex.nullableResults = true
				v := ex.freshVal(st, k, "recv")
				ex.nullableResults = false
				return v
			}
		}
	}
	return SV{T: Zero}
}

func (ex *Exec) traceEvent(st *State, name string, args ...*Term) {
	c := ex.traceCell()
	cur, ok := st.store[c].(SV)
	if !ok {
		cur = SV{T: Var("trace0", SInt)}
	}
	a := append([]*Term{cur.T, StrLit(name)}, args...)
	for len(a) < 3 {
		a = append(a, Zero)
	}
	st.store[c] = SV{T: App("trace.ev", SInt, a[:3]...)}
}

var theTraceCell = newCell("$trace")

func (ex *Exec) traceCell() *Cell { return theTraceCell }

// ---------- calls ----------

func (ex *Exec) calleeOf(call *ast.CallExpr) *types.Func {
	fn := typeutil.Callee(ex.info, call)
	f, _ := fn.(*types.Func)
	return f
}

// calleeContract returns the contract applicable to a call (nil if none), the callee func and, for
// abstractor calls, the gadget type.
func (ex *Exec) calleeContract(call *ast.CallExpr) (*Contract, *types.Func, *types.Named) {
	f := ex.calleeOf(call)
	if f == nil {
		return nil, nil, nil
	}
	key := funcKey(f)
	if strings.HasPrefix(key, "github.com/reilabs/gnark-lean-extractor/v2/abstractor.Call") && len(call.Args) == 2 {
		t := ex.info.TypeOf(call.Args[1])
		if n, ok := t.(*types.Named); ok {
			gk := qualName(n) + ".DefineGadget"
			return ex.prog.Contracts.ByKey[gk], f, n
		}
	}
	return ex.prog.Contracts.ByKey[key], f, nil
}

func (ex *Exec) isLoggingChain(e ast.Expr) bool {
	for {
		switch n := e.(type) {
		case *ast.CallExpr:
			if f := ex.calleeOf(n); f != nil && funcKey(f) == repoPrefix+"/logging.Logger" {
				return true
			}
			sel, ok := n.Fun.(*ast.SelectorExpr)
			if !ok {
				return false
			}
			e = sel.X
		case *ast.SelectorExpr:
			e = n.X
		case *ast.ParenExpr:
			e = n.X
		default:
			return false
		}
	}
}

func (ex *Exec) evalCall(st *State, call *ast.CallExpr) Val {
	// conversions
	if tv, ok := ex.info.Types[call.Fun]; ok && tv.IsType() {
		return ex.evalConversion(st, call, tv.Type)
	}
	// builtins
	if id, ok := call.Fun.(*ast.Ident); ok {
		if b, isB := ex.info.Uses[id].(*types.Builtin); isB {
			return ex.evalBuiltin(st, call, b.Name())
		}
	}
	if ex.isLoggingChain(call) {
		// logger calls: the arguments of every call in the chain are still evaluated for their obligations
		// (bounds, nil dereference); the calls themselves have no modelled effect
		var cur ast.Expr = call
		for cur != nil {
			c, ok := cur.(*ast.CallExpr)
			if !ok {
				break
			}
			for _, a := range c.Args {
				func() {
					defer func() {
						if r := recover(); r != nil {
							if _, isAbort := r.(abortPath); isAbort {
								panic(r)
							}
						}
					}()
					ex.evalExpr(st, a)
				}()
			}
			sel, ok := c.Fun.(*ast.SelectorExpr)
			if !ok {
				break
			}
			cur = sel.X
		}
		return &ObjV{K: &Kind{K: "obj", Name: "logger"}, ID: Zero, Ghost: map[string]Val{}}
	}
	f := ex.calleeOf(call)
	if f == nil {
		// call of a function value
		fv := ex.evalExpr(st, call.Fun)
		return ex.callFuncValue(st, fv, call)
	}
	key := funcKey(f)
	sig := f.Type().(*types.Signature)
	// receiver + args
	var recv Val
	var recvExpr ast.Expr
	if sel, ok := call.Fun.(*ast.SelectorExpr); ok && sig.Recv() != nil {
		recvExpr = sel.X
		recv = ex.evalRecv(st, sel.X, sig.Recv().Type())
	}
	if strings.HasPrefix(key, "github.com/reilabs/gnark-lean-extractor/v2/abstractor.Call") {
		if len(ex.ct.Asserts) > 0 {
			ex.ghostAsserts([]*State{st}, "before:"+f.Name(), call.Pos(), call)
		}
		res := ex.callGadget(st, call)
		ex.afterCallAsserts(st, f.Name(), nil, nil, res, call)
		return res
	}
	args := ex.evalArgs(st, call, sig)
	if len(ex.ct.Asserts) > 0 {
		// assert@before:<callee>: the call's arguments are visible as arg0, arg1, … and the receiver as recv
		extra := map[string]Val{}
		for i, a := range args {
			extra[fmt.Sprintf("arg%d", i)] = a
		}
		if recv != nil {
			extra["recv"] = recv
		}
		ex.assertExtra = extra
		ex.ghostAsserts([]*State{st}, "before:"+f.Name(), call.Pos(), call)
		ex.assertExtra = nil
	}
	if recvExpr != nil {
		// methods promoted from embedded interfaces: prefer a contract keyed by the static receiver type
		rt := ex.info.TypeOf(recvExpr)
		if p, ok := rt.(*types.Pointer); ok {
			rt = p.Elem()
		}
		if n, ok := rt.(*types.Named); ok {
			alt := qualName(n) + "." + f.Name()
			if alt != key {
				if _, ok := ex.prog.Contracts.ByKey[alt]; ok {
					key = alt
				}
			}
		}
	}
	// contracts specialised on the static type of an argument: key#type (last argument first)
	for ai := len(call.Args) - 1; ai >= 0; ai-- {
		lt := ex.info.TypeOf(call.Args[ai])
		if lt != nil {
			tk := key + "#" + types.TypeString(lt, func(p *types.Package) string { return p.Name() })
			if ct := ex.prog.Contracts.ByKey[tk]; ct != nil {
				res := ex.applyContract(st, ct, f, recv, args, call)
				ex.afterCallAsserts(st, f.Name(), recv, args, res, call)
				return res
			}
		}
	}
	if ct := ex.prog.Contracts.ByKey[key]; ct != nil {
		res := ex.applyContract(st, ct, f, recv, args, call)
		ex.afterCallAsserts(st, f.Name(), recv, args, res, call)
		return res
	}
	if fi := ex.prog.Funcs[key]; fi != nil {
		return ex.inlineCall(st, fi, recv, args, call)
	}
	if v, ok := ex.evalKnownExtern(st, key, recv, recvExpr, args, call); ok {
		return v
	}
	// unknown external function: uninterpreted result, no modelled side effects
	if ex.apiObj != nil {
		// circuit-definition code must be a deterministic function of its inputs: only the API table, the gadgets
		// and contracted helpers may be called
		ex.fail("determinism", ex.site("determinism"), "circuit code calls "+key+", which is outside the modelled API (time, randomness, I/O and unknown libraries would make the emitted constraints depend on more than the dimensions)", call)
	}
	ex.note("unmodelled external call %s: result unconstrained; ghost state of its receiver and of objects passed by pointer is havoced, no other side effects assumed", key)
	// conservative frame for unknown library calls: the ghost state of the receiver object and of opaque objects
	// passed by pointer becomes unknown
	havocObj := func(v Val) {
		switch x := v.(type) {
		case *ObjV:
			if len(x.Ghost) > 0 {
				ex.replaceObj(st, x, ex.havocLike(st, x, nil, "h."+f.Name()).(*ObjV))
			}
		case *RefV:
			if !x.Nil && x.Cell != nil && len(x.Path) == 0 {
				if o, ok := st.store[x.Cell].(*ObjV); ok && len(o.Ghost) > 0 {
					st.store[x.Cell] = ex.havocLike(st, o, nil, "h."+f.Name())
				}
			}
		}
	}
	if recv != nil {
		havocObj(recv)
	}
	for _, a := range args {
		havocObj(a)
	}
	ex.nullableResults = true
	res := ex.freshResult(st, sig, "r."+f.Name())
	ex.nullableResults = false
	if tv, ok := res.(*TupleV); ok {
		st.recordCall(f.Name(), tv.Vs)
	} else {
		st.recordCall(f.Name(), []Val{res})
	}
	return res
}

func (ex *Exec) evalRecv(st *State, x ast.Expr, recvT types.Type) Val {
	xt := ex.info.TypeOf(x)
	_, wantPtr := recvT.Underlying().(*types.Pointer)
	_, havePtr := xt.Underlying().(*types.Pointer)
	if wantPtr && !havePtr {
		if _, isIface := xt.Underlying().(*types.Interface); !isIface {
			return ex.lvalueOrTemp(st, x) // implicit &x
		}
	}
	v := ex.evalExpr(st, x)
	if !wantPtr && havePtr {
		return ex.load(st, v.(*RefV), x)
	}
	return v
}

func (ex *Exec) evalArgs(st *State, call *ast.CallExpr, sig *types.Signature) []Val {
	var args []Val
	np := sig.Params().Len()
	if len(call.Args) == 1 && np > 1 {
		// f(g()) with multi-value g
		if tv, ok := ex.evalExpr(st, call.Args[0]).(*TupleV); ok {
			return tv.Vs
		}
	}
	for i, a := range call.Args {
		var pt types.Type
		if sig.Variadic() && i >= np-1 {
			pt = sig.Params().At(np - 1).Type().(*types.Slice).Elem()
			if call.Ellipsis.IsValid() {
				pt = sig.Params().At(np - 1).Type()
			}
		} else if i < np {
			pt = sig.Params().At(i).Type()
		}
		v := ex.evalExpr(st, a)
		args = append(args, ex.coerce(st, v, ex.info.TypeOf(a), pt))
	}
	if sig.Variadic() && !call.Ellipsis.IsValid() {
		fixed := np - 1
		et := sig.Params().At(np - 1).Type().(*types.Slice).Elem()
		var rest []Val
		if len(args) > fixed {
			rest = append(rest, args[fixed:]...)
		}
		args = append(args[:fixed:fixed], mkVec(kindOf(et), rest))
	}
	return args
}

func (ex *Exec) freshResult(st *State, sig *types.Signature, hint string) Val {
	switch sig.Results().Len() {
	case 0:
		return SV{T: Zero}
	case 1:
		return ex.freshVal(st, kindOf(sig.Results().At(0).Type()), hint)
	}
	var vs []Val
	for i := 0; i < sig.Results().Len(); i++ {
		vs = append(vs, ex.freshVal(st, kindOf(sig.Results().At(i).Type()), fmt.Sprintf("%s_%d", hint, i)))
	}
	return &TupleV{vs}
}

func (ex *Exec) evalConversion(st *State, call *ast.CallExpr, to types.Type) Val {
	arg := call.Args[0]
	from := ex.info.TypeOf(arg)
	// int(math.Ceil(float64(a)/float64(b)))
	if isIntT(to) {
		if c, ok := arg.(*ast.CallExpr); ok {
			if f := ex.calleeOf(c); f != nil && funcKey(f) == "math.Ceil" {
				if be, ok := c.Args[0].(*ast.BinaryExpr); ok && be.Op == token.QUO {
					a := ex.floatOperand(st, be.X)
					b := ex.floatOperand(st, be.Y)
					if a != nil && b != nil {
						// float64(a), float64(b) are exact below 2^53; q = a/b is either an integer (exact) or at least 1/b away
						// from one, while the rounding error of the division is at most q*2^-53 < 1/b for a < 2^53
						two40 := BigLit(new(big.Int).Lsh(big.NewInt(1), 52))
						g := And(Le(Zero, a), Lt(a, two40), Lt(Zero, b), Lt(b, IntLit(1<<31)))
						ex.oblige(st, "float-lemma", ex.site("float-lemma"), g, call)
						st.assume(g)
						ex.note("float64 arithmetic int(math.Ceil(float64(a)/float64(b))) replaced by (a+b-1) div b under 0<=a<2^52, 0<b<2^31 (trusted lemma: operands exact, rounding error of the quotient below 1/b)")
						return SV{T: Div(Add(a, b, IntLit(-1)), b)}
					}
				}
			}
		}
	}
	v := ex.evalExpr(st, arg)
	if isVariableType(to) {
		return ex.coerce(st, v, from, to)
	}
	if isIntT(to) && isIntT(from) {
		sv := v.(SV)
		k := kindOf(to)
		fk := kindOf(from)
		if k.Lo == "" || (fk.Lo != "" && rangeWithin(fk, k)) {
			return sv
		}
		lo, _ := new(big.Int).SetString(k.Lo, 10)
		hi, _ := new(big.Int).SetString(k.Hi, 10)
		if sv.T.IsInt() && sv.T.Int.Cmp(lo) >= 0 && sv.T.Int.Cmp(hi) <= 0 {
			return sv
		}
		if lo.Sign() == 0 {
			m := new(big.Int).Add(hi, big.NewInt(1))
			return SV{T: Mod(sv.T, BigLit(m))}
		}
		// signed target: value-preserving if in range; otherwise wrap (two's complement)
		m := new(big.Int).Add(new(big.Int).Sub(hi, lo), big.NewInt(1))
		inr := And(Le(BigLit(lo), sv.T), Le(sv.T, BigLit(hi)))
		wrapped := Add(Mod(Sub(sv.T, BigLit(lo)), BigLit(m)), BigLit(lo))
		return SV{T: Ite(inr, sv.T, wrapped)}
	}
	// []byte(string): an abstract byte string determined by the string
	if sl, ok := to.Underlying().(*types.Slice); ok {
		if sv, ok := v.(SV); ok && sv.T.Sort == SStr {
			return &SliceV{Elem: kindOf(sl.Elem()), Len: App("str.len", SInt, sv.T), Arr: App("str.bytes", SArrInt, sv.T), Tag: newTag()}
		}
	}
	// named-type conversions: value-preserving
	return v
}

func rangeWithin(a, b *Kind) bool {
	alo, _ := new(big.Int).SetString(a.Lo, 10)
	ahi, _ := new(big.Int).SetString(a.Hi, 10)
	blo, _ := new(big.Int).SetString(b.Lo, 10)
	bhi, _ := new(big.Int).SetString(b.Hi, 10)
	return alo.Cmp(blo) >= 0 && ahi.Cmp(bhi) <= 0
}

func (ex *Exec) floatOperand(st *State, e ast.Expr) *Term {
	c, ok := e.(*ast.CallExpr)
	if !ok {
		return nil
	}
	if tv, ok := ex.info.Types[c.Fun]; !ok || !tv.IsType() {
		return nil
	}
	if !isIntT(ex.info.TypeOf(c.Args[0])) {
		return nil
	}
	return ex.evalExpr(st, c.Args[0]).(SV).T
}

func (ex *Exec) evalBuiltin(st *State, call *ast.CallExpr, name string) Val {
	switch name {
	case "len", "cap":
		v := ex.evalExpr(st, call.Args[0])
		if r, ok := v.(*RefV); ok {
			v = ex.load(st, r, call)
		}
		switch s := v.(type) {
		case *SliceV:
			return SV{T: s.Len}
		case SV:
			if s.T.Sort == SStr {
				return SV{T: App("str.len", SInt, s.T)}
			}
		}
		panic(unsupported("len of %T at %s", v, ex.pos(call)))
	case "make":
		t := ex.info.TypeOf(call.Args[0])
		k := kindOf(t)
		if k.K != "slice" {
			if k.K == "obj" {
				return &ObjV{K: k, ID: Fresh("make."+k.Name, SInt), Ghost: map[string]Val{"closed": SV{T: False}}}
			}
			panic(unsupported("make of %s", k))
		}
		n := ex.evalExpr(st, call.Args[1]).(SV).T
		if n.IsInt() && n.Int64() >= 0 && n.Int64() <= 4096 {
			vs := make([]Val, n.Int64())
			for i := range vs {
				vs[i] = zeroVal(k.Elem)
			}
			return mkVec(k.Elem, vs)
		}
		g := Ge(n, Zero)
		if !g.IsTrue() {
			ex.oblige(st, "bounds", ex.site("make-len"), g, call)
			st.assume(g)
		}
		s := &SliceV{Elem: k.Elem, Len: n, Tag: newTag()}
		switch k.Elem.K {
		case "slice":
			s.Arr = ConstArr(SArr(SInt, SArr(SInt, k.Elem.Elem.sortOf())), ConstArr(SArr(SInt, k.Elem.Elem.sortOf()), zeroTerm(k.Elem.Elem)))
			s.Lens = ConstArr(SArrInt, Zero)
		case "struct":
			panic(unsupported("make of symbolic-length slice of structs at %s", ex.pos(call)))
		default:
			s.Arr = ConstArr(SArr(SInt, k.Elem.sortOf()), zeroTerm(k.Elem))
			if k.Elem.K == "var" {
				s.Lit = ConstArr(SArrBool, False)
			}
		}
		return s
	case "new":
		t := ex.info.TypeOf(call.Args[0])
		c := newCell("new")
		st.store[c] = zeroVal(kindOf(t))
		return &RefV{Cell: c}
	case "append":
		sv := ex.evalExpr(st, call.Args[0])
		var s *SliceV
		switch x := sv.(type) {
		case *SliceV:
			s = x
		case SV: // nil
			s = mkVec(kindOf(ex.info.TypeOf(call)).Elem, nil)
		default:
			panic(unsupported("append to %T", sv))
		}
		et := ex.info.TypeOf(call).Underlying().(*types.Slice).Elem()
		if call.Ellipsis.IsValid() {
			tv := ex.evalExpr(st, call.Args[1])
			t, ok := tv.(*SliceV)
			if !ok {
				panic(unsupported("append(s, %T...)", tv))
			}
			return ex.appendSlice(st, s, t)
		}
		var elems []Val
		for _, a := range call.Args[1:] {
			elems = append(elems, ex.coerce(st, ex.evalExpr(st, a), ex.info.TypeOf(a), et))
		}
		return ex.appendVals(st, s, elems)
	case "copy":
		dref := ex.lvalueOrTemp(st, stripFullSlice(call.Args[0]))
		d := ex.load(st, dref, call).(*SliceV)
		if dsl, ok := call.Args[0].(*ast.SliceExpr); ok && (dsl.Low != nil || dsl.High != nil) {
			return ex.copyInto(st, dref, d, dsl, call)
		}
		s := ex.evalExpr(st, call.Args[1]).(*SliceV)
		if d.IsV && (s.IsV || s.Len.IsInt()) {
			se := s.explode()
			n := len(d.Vec)
			if len(se.Vec) < n {
				n = len(se.Vec)
			}
			nd := d
			for i := 0; i < n; i++ {
				nd = nd.setElem(IntLit(int64(i)), se.Vec[i])
			}
			ex.storeSliceInPlace(st, dref, d, nd, call)
			return SV{T: IntLit(int64(n))}
		}
		// symbolic copy: n = min(len d, len s)
		dm, sm := d.materialize(), s.materialize()
		n := Ite(Lt(dm.Len, sm.Len), dm.Len, sm.Len)
		na := Fresh("copy", dm.Arr.Sort)
		k := Var(fmt.Sprintf("k!q%d", nextQ()), SInt)
		st.assume(Quant("forall", []*Term{k}, Eq(Select(na, k), Ite(And(Le(Zero, k), Lt(k, n)), Select(sm.Arr, k), Select(dm.Arr, k))), []*Term{Select(na, k)}))
		nd := *dm
		nd.Arr = na
		ex.storeSliceInPlace(st, dref, d, &nd, call)
		return SV{T: n}
	case "panic":
		// assert@before:panic e — the contract allows this panic, but only in states where e holds
		allowed := false
		for _, a := range ex.ct.Asserts {
			if a.Name == "before:panic" && (a.Mode == "" || a.Mode == ex.mode) {
				allowed = true
			}
		}
		if allowed {
			ex.ghostAsserts([]*State{st}, "before:panic", call.Pos(), call)
		} else {
			ex.oblige(st, "unreachable-panic", ex.site("panic"), False, call)
		}
		panic(abortPath{})
	case "delete":
		// map contents are abstract (reads are unconstrained): a deletion changes nothing that is modelled
		ex.evalExpr(st, call.Args[0])
		ex.evalExpr(st, call.Args[1])
		return SV{T: Zero}
	case "close":
		ch := ex.evalExpr(st, call.Args[0]).(*ObjV)
		ex.traceEvent(st, "close", ch.ID)
		return SV{T: Zero}
	case "min", "max":
		a := ex.evalExpr(st, call.Args[0]).(SV).T
		b := ex.evalExpr(st, call.Args[1]).(SV).T
		if name == "min" {
			return SV{T: Ite(Lt(a, b), a, b)}
		}
		return SV{T: Ite(Lt(a, b), b, a)}
	}
	panic(unsupported("builtin %s at %s", name, ex.pos(call)))
}

// copyInto handles copy(dst[lo:hi], src) where dst[lo:hi] is a proper sub-slice of an owned slice.
func (ex *Exec) copyInto(st *State, dref *RefV, d *SliceV, dsl *ast.SliceExpr, call *ast.CallExpr) Val {
	lo, hi := Zero, d.Len
	if dsl.Low != nil {
		lo = ex.evalExpr(st, dsl.Low).(SV).T
	}
	if dsl.High != nil {
		hi = ex.evalExpr(st, dsl.High).(SV).T
	}
	g := And(Le(Zero, lo), Le(lo, hi), Le(hi, d.Len))
	if !g.IsTrue() {
		ex.oblige(st, "bounds", ex.site("bounds"), g, call)
		st.assume(g)
	}
	s := ex.evalExpr(st, call.Args[1]).(*SliceV)
	wn := Sub(hi, lo)
	if dd, ok := constDiff(hi, lo); ok {
		wn = IntLit(dd)
	}
	if wn.IsInt() && s.Len.IsInt() {
		n := wn.Int64()
		if s.Len.Int64() < n {
			n = s.Len.Int64()
		}
		se := s.explode()
		nd := d
		for i := int64(0); i < n; i++ {
			nd = nd.setElem(Add(lo, IntLit(i)), se.Vec[i])
		}
		ex.storeSliceInPlace(st, dref, d, nd, call)
		return SV{T: IntLit(n)}
	}
	dm, sm := d.materialize(), s.materialize()
	n := Ite(Lt(wn, sm.Len), wn, sm.Len)
	na := Fresh("copy", dm.Arr.Sort)
	k := Var(fmt.Sprintf("k!q%d", nextQ()), SInt)
	st.assume(Quant("forall", []*Term{k}, Eq(Select(na, k), Ite(And(Le(lo, k), Lt(k, Add(lo, n))), Select(sm.Arr, Sub(k, lo)), Select(dm.Arr, k))), []*Term{Select(na, k)}))
	nd := *dm
	nd.Arr = na
	ex.storeSliceInPlace(st, dref, d, &nd, call)
	return SV{T: n}
}

func stripFullSlice(e ast.Expr) ast.Expr {
	if s, ok := e.(*ast.SliceExpr); ok {
		return s.X
	}
	return e
}

// storeSliceInPlace replaces the contents of the slice at dref (an in-place write to its backing array).
func (ex *Exec) storeSliceInPlace(st *State, dref *RefV, oldS, newS *SliceV, node ast.Node) {
	ex.checkFrame(st, dref, true, node)
	newS.Tag = oldS.Tag
	st.store[dref.Cell] = ex.update(st.store[dref.Cell], dref.Path, newS)
	if oldS.Tag < 0 {
		ex.fail("ownership", ex.site("ownership"), "in-place write through a sub-slice view", node)
	} else if oldS.Tag > 0 {
		ex.propagateAlias(st, oldS, newS, dref.Cell, dref.Path, node)
	}
}

// checkFrame verifies that a caller-visible write is covered by the contract's modifies clause.
func (ex *Exec) checkFrame(st *State, r *RefV, inPlace bool, node ast.Node) {
	// implemented in frame checks of storeRef via paramRoots; see frameCheck
	ex.frameCheck(r, inPlace, node)
}

// intLeaves: every leaf of the (nested) composite literal is an integer literal or a call whose arguments are integer literals.
func intLeaves(cl *ast.CompositeLit) bool {
	if len(cl.Elts) == 0 {
		return false
	}
	for _, e := range cl.Elts {
		switch x := e.(type) {
		case *ast.CompositeLit:
			if !intLeaves(x) {
				return false
			}
		case *ast.BasicLit:
			if x.Kind != token.INT {
				return false
			}
		case *ast.CallExpr:
			for _, a := range x.Args {
				bl, ok := a.(*ast.BasicLit)
				if !ok || bl.Kind != token.INT {
					return false
				}
			}
		default:
			return false
		}
	}
	return true
}

// afterCallAsserts runs assert@after:<callee> clauses (result visible as `res`).
func (ex *Exec) afterCallAsserts(st *State, name string, recv Val, args []Val, res Val, call *ast.CallExpr) {
	if len(ex.ct.Asserts) == 0 {
		return
	}
	extra := map[string]Val{"res": res}
	if tv, ok := res.(*TupleV); ok {
		for i, v := range tv.Vs {
			extra[fmt.Sprintf("res%d", i)] = v
		}
	}
	for i, a := range args {
		extra[fmt.Sprintf("arg%d", i)] = a
	}
	if recv != nil {
		extra["recv"] = recv
	}
	saved := ex.assertExtra
	ex.assertExtra = extra
	ex.ghostAsserts([]*State{st}, "after:"+name, call.End(), call)
	ex.assertExtra = saved
}
