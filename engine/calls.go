package main

import (
	"fmt"
	"go/ast"
	"go/types"
	"math/big"
	"strings"
)

// frameCheck: caller-visible writes must be covered by the contract's modifies clause.
func (ex *Exec) frameCheck(r *RefV, inPlace bool, node ast.Node) {
	if r == nil || r.Cell == nil {
		return
	}
	for _, c := range globalCells {
		if c == r.Cell {
			ex.fail("frame", ex.site("frame"), "write to package-level variable "+c.name, node)
			return
		}
	}
	pr, ok := ex.paramRoot[r.Cell]
	if !ok {
		return
	}
	hasIdx := false
	path := pr.name
	for _, a := range r.Path {
		if a.Idx != nil {
			hasIdx = true
			break
		}
		path += "." + a.Field
	}
	if !pr.pointee && !hasIdx && !inPlace {
		return // assignment to the local copy of a by-value parameter
	}
	for _, m := range ex.ct.Modifies {
		ms := m.String()
		if path == ms || strings.HasPrefix(path, ms+".") {
			return
		}
	}
	ex.fail("frame", ex.site("frame"), fmt.Sprintf("write to caller-visible memory %s is not covered by a modifies clause", path), node)
}

type paramRootInfo struct {
	name    string
	pointee bool
}

// ---------- gadget calls through abstractor.Call* ----------

func (ex *Exec) callGadget(st *State, call *ast.CallExpr) Val {
	gv := ex.evalExpr(st, call.Args[1])
	t := ex.info.TypeOf(call.Args[1])
	n, ok := t.(*types.Named)
	if !ok {
		panic(unsupported("abstractor call with non-named gadget at %s", ex.pos(call)))
	}
	key := qualName(n) + ".DefineGadget"
	fi := ex.prog.Funcs[key]
	if fi == nil {
		panic(unsupported("gadget %s has no DefineGadget in the repository", key))
	}
	apiV := st.store[ex.cellOf(ex.apiObj)]
	ct := ex.prog.Contracts.ByKey[key]
	if ct == nil {
		return ex.inlineCall(st, fi, gv, []Val{apiV}, call)
	}
	return ex.applyContract(st, ct, fi.Obj, gv, []Val{apiV}, call)
}

// ---------- applying a contract at a call site ----------

func (ex *Exec) applyContract(st *State, ct *Contract, f *types.Func, recv Val, args []Val, call *ast.CallExpr) Val {
	sig := f.Type().(*types.Signature)
	bind := map[string]Val{}
	var names []string
	if ct.Extern {
		all := args
		if sig.Recv() != nil {
			all = append([]Val{recv}, args...)
		}
		if len(ct.Params) != len(all) {
			panic(fmt.Errorf("extern contract %s declares %d parameters, call at %s passes %d", ct.Key, len(ct.Params), ex.pos(call), len(all)))
		}
		for i, p := range ct.Params {
			bind[p] = all[i]
			names = append(names, p)
		}
	} else {
		if r := sig.Recv(); r != nil && r.Name() != "" {
			bind[r.Name()] = recv
			names = append(names, r.Name())
		}
		for i := 0; i < sig.Params().Len(); i++ {
			p := sig.Params().At(i)
			if p.Name() != "" && i < len(args) {
				bind[p.Name()] = args[i]
				names = append(names, p.Name())
			}
		}
	}
	hasAPI := strings.Contains(ct.Key, "gnark/frontend.API.")
	for i := 0; i < sig.Params().Len(); i++ {
		if strings.HasSuffix(sig.Params().At(i).Type().String(), "gnark/frontend.API") {
			hasAPI = true
		}
	}
	siteName := ex.site("call:" + shortName(ct.Key))
	// a method of the repository with a pointer receiver dereferences it: the receiver must not be nil
	if !ct.Extern && sig.Recv() != nil {
		if r, ok := recv.(*RefV); ok {
			g := Not(r.nilTerm())
			if !g.IsTrue() {
				ex.oblige(st, "nil-deref", siteName+"/receiver-non-nil", g, call)
				st.assume(g)
			}
		}
	}
	pre := st.clone()
	lets := map[string]*CExpr{}
	for _, l := range ct.Lets {
		lets[l.Name] = l.Expr
	}
	mkEnv := func(s *State, b map[string]Val) *CEnv {
		return &CEnv{ex: ex, st: s, bound: map[string]*Term{}, lets: lets,
			lookup: func(n string) (Val, bool) {
				if v, ok := b[n]; ok {
					return v, true
				}
				if n == "trace" {
					if tv, ok := s.store[theTraceCell]; ok {
						return tv, true
					}
					return SV{T: Var("trace0", SInt)}, true
				}
				// package-level names of the callee's package
				if f.Pkg() != nil {
					switch o := f.Pkg().Scope().Lookup(n).(type) {
					case *types.Var:
						return ex.globalVar(s, o), true
					case *types.Const:
						return constVal(o.Val(), o.Type()), true
					}
				}
				return nil, false
			}}
	}
	oldEnv := mkEnv(pre, bind)
	oldEnv.ok, oldEnv.ok0 = pre.ok, pre.ok
	// preconditions
	for i, r := range ct.Requires {
		if r.Mode != "" && r.Mode != ex.mode {
			continue
		}
		ex.cur = st
		g := oldEnv.evalBool(r.Expr)
		ex.oblige(st, "pre", fmt.Sprintf("%s/pre#%d", siteName, i+1), g, call)
		ex.obls[len(ex.obls)-1].Note = r.Text
		st.assume(g)
	}
	// termination of recursion (direct, or through an interface method this function implements)
	if ct.FDecreases != nil && ex.ct.FDecreases != nil && ex.entry != nil &&
		(ct.Key == ex.ct.Key || ct.Key == ex.ct.Implements || (ct.Implements != "" && ct.Implements == ex.ct.Implements)) {
		ex.cur = st
		m1 := oldEnv.evalTerm(ct.FDecreases)
		m0 := ex.cenv(ex.entry, ex.fi.Body.Lbrace+1).evalTerm(ex.ct.FDecreases)
		ex.oblige(st, "decreases", siteName+"/decreases", And(Le(Zero, m1), Lt(m1, m0)), call)
	}
	// shapes required by the callee
	for k, v := range ct.Opts {
		if strings.HasPrefix(k, "shape ") {
			path := strings.TrimSpace(strings.TrimPrefix(k, "shape "))
			dims, _, _, _ := parseShape(v)
			ce := oldEnv
			e, err := ParseCExpr(path)
			if err != nil {
				panic(err)
			}
			val := ce.eval(e)
			if !shapeMatches(val, dims) {
				ex.oblige(st, "pre", fmt.Sprintf("%s/shape(%s)", siteName, path), ex.shapeTerm(val, dims), call)
			}
		}
	}
	// frame: havoc what the callee may modify
	post := map[string]Val{}
	for k, v := range bind {
		post[k] = v
	}
	var fresh []*Term
	trackFresh := func(mark int) {
		_ = mark
	}
	_ = trackFresh
	freshMark := freshCtr
	type wb struct {
		oldS, newS *SliceV
	}
	var wbs []wb
	var viewWbs []wb
	for _, m := range ct.Modifies {
		root, fields := splitPath(m)
		if root == "trace" && len(fields) == 0 {
			st.store[theTraceCell] = SV{T: Fresh("trace", SInt)}
			continue
		}
		rv, ok := bind[root]
		if !ok {
			panic(fmt.Errorf("modifies %s: unknown parameter in contract %s", m, ct.Key))
		}
		switch x := rv.(type) {
		case *RefV:
			if x.Nil {
				continue
			}
			var accs []Acc
			for _, f := range fields {
				accs = append(accs, Acc{Field: f})
			}
			oldV := ex.load(st, &RefV{Cell: x.Cell, Path: append(append([]Acc{}, x.Path...), accs...)}, call)
			var nv Val
			if ex.pathThroughObj(st, x, accs) {
				nv = ex.havocLike(st, oldV, nil, root+"."+strings.Join(fields, "."))
			} else {
				nv = ex.havocContents(st, oldV, root+"."+strings.Join(fields, "."))
			}
			ex.frameCheck(&RefV{Cell: x.Cell, Path: append(append([]Acc{}, x.Path...), accs...)}, true, call)
			st.store[x.Cell] = ex.update(st.store[x.Cell], append(append([]Acc{}, x.Path...), accs...), nv)
			if os, ok := oldV.(*SliceV); ok && os.Tag > 0 {
				wbs = append(wbs, wb{os, nv.(*SliceV)})
			}
		default:
			var accs []Acc
			for _, f := range fields {
				accs = append(accs, Acc{Field: f})
			}
			cur := rv
			for _, a := range accs {
				cur = ex.access(st, cur, a, call)
			}
			var nv Val
			if _, isObj := rv.(*ObjV); isObj && len(accs) > 0 {
				nv = ex.havocLike(st, cur, nil, root+"."+strings.Join(fields, "."))
			} else {
				nv = ex.havocContents(st, cur, root+"."+strings.Join(fields, "."))
			}
			post[root] = ex.update(post[root], accs, nv)
			if o, isObj := rv.(*ObjV); isObj && len(accs) > 0 {
				ex.replaceObj(st, o, post[root].(*ObjV))
			}
			switch os := cur.(type) {
			case *SliceV:
				if os.Tag > 0 {
					wbs = append(wbs, wb{os, nv.(*SliceV)})
				} else if os.Tag < 0 {
					if os.ViewTag > 0 && os.Len.IsInt() {
						viewWbs = append(viewWbs, wb{os, nv.(*SliceV)})
					} else {
						ex.fail("ownership", ex.site("ownership"), fmt.Sprintf("callee %s modifies a sub-slice view", ct.Key), call)
					}
				}
			case *ObjV:
				ex.replaceObj(st, os, nv.(*ObjV))
			}
		}
	}
	postEnv := mkEnv(st, post)
	postEnv.atCallSite = true
	oldEnv.atCallSite = true
	postEnv.old = oldEnv
	postEnv.ok0 = pre.ok
	if hasAPI {
		// a contract that does not mention api.ok leaves it unchanged
		mentions := false
		for _, e := range ct.Ensures {
			if (e.Mode == "" || e.Mode == ex.mode) && strings.Contains(e.Text, "api.ok") {
				mentions = true
			}
		}
		hasAPI = mentions
	}
	if hasAPI {
		okPost := Fresh("ok", SBool)
		fresh = append(fresh, okPost)
		postEnv.ok = okPost
	} else {
		postEnv.ok = st.ok
	}
	// results
	ex.nullableResults = true
	defer func() { ex.nullableResults = false }()
	var result Val
	var results []Val
	if rp, ok := ct.Opts["result"]; ok {
		v, ok := bind[rp]
		if !ok {
			panic(fmt.Errorf("opt result = %s: unknown parameter in %s", rp, ct.Key))
		}
		results = []Val{v}
		for i := 1; i < sig.Results().Len(); i++ {
			results = append(results, ex.freshVal(st, kindOf(sig.Results().At(i).Type()), fmt.Sprintf("r.%s_%d", ct.Name, i)))
		}
		result = v
		if len(results) > 1 {
			result = &TupleV{results}
		}
	} else if ct.Returns != "" {
		result = ex.freshByShape(st, ct.Returns, "r."+shortName(strings.TrimSuffix(ct.Key, ".DefineGadget")))
		results = []Val{result}
	} else {
		switch sig.Results().Len() {
		case 0:
			result = SV{T: Zero}
		case 1:
			result = ex.freshVal(st, kindOf(sig.Results().At(0).Type()), "r."+ct.Name)
			results = []Val{result}
		default:
			for i := 0; i < sig.Results().Len(); i++ {
				results = append(results, ex.freshVal(st, kindOf(sig.Results().At(i).Type()), fmt.Sprintf("r.%s_%d", ct.Name, i)))
			}
			result = &TupleV{results}
		}
	}
	base := postEnv.lookup
	resNames := ct.Results
	if !ct.Extern {
		for i := 0; i < sig.Results().Len(); i++ {
			resNames = append(resNames, sig.Results().At(i).Name())
		}
	}
	postEnv.lookup = func(n string) (Val, bool) {
		if n == "result" && len(results) > 0 {
			return results[0], true
		}
		for i, rn := range resNames {
			if i < len(results) && (rn == n && rn != "" || fmt.Sprintf("result%d", i) == n) {
				return results[i], true
			}
		}
		return base(n)
	}
	pcMark := len(st.pc)
	if hasAPI {
		st.ok = postEnv.ok
	}
	for _, e := range ct.Ensures {
		if e.Mode != "" && e.Mode != ex.mode {
			continue
		}
		ex.cur = st
		st.assume(postEnv.evalBool(e.Expr))
	}
	// write back in-place modifications to every alias in the caller
	for _, w := range wbs {
		w.newS.Tag = w.oldS.Tag
		ex.propagateAlias(st, w.oldS, w.newS, nil, nil, call)
	}
	// in-place modifications through a sub-slice view are written into the parent backing array
	for _, w := range viewWbs {
		parent := ex.findByTag(st, w.oldS.ViewTag)
		if parent == nil {
			ex.fail("ownership", ex.site("ownership"), fmt.Sprintf("callee %s modifies a sub-slice view whose parent is not owned here", ct.Key), call)
			continue
		}
		np := parent
		n := int(w.oldS.Len.Int64())
		for k := 0; k < n; k++ {
			np = np.setElem(Add(w.oldS.ViewOff, IntLit(int64(k))), w.newS.elemAt(IntLit(int64(k))))
		}
		np.Tag = parent.Tag
		ex.propagateAlias(st, parent, np, nil, nil, call)
	}
	// definitional equalities for symbols created by this call
	result = ex.eliminateDefs(st, pcMark, freshMark, result)
	if tv, ok := result.(*TupleV); ok {
		st.recordCall(ct.Name, tv.Vs)
	} else {
		st.recordCall(ct.Name, []Val{result})
	}
	if ct.Trusted {
		ex.note("contract of %s is assumed, its body is not verified", ct.Key)
	}
	return result
}

func splitPath(e *CExpr) (string, []string) {
	switch e.K {
	case "ident":
		return e.S, nil
	case "sel":
		r, f := splitPath(e.A[0])
		return r, append(f, e.S)
	case "index", "slice":
		return splitPath(e.A[0])
	}
	panic(fmt.Errorf("bad modifies path %s", e))
}

func (ex *Exec) replaceObj(st *State, oldO, newO *ObjV) {
	var rec func(v Val) Val
	rec = func(v Val) Val {
		switch x := v.(type) {
		case *ObjV:
			if x == oldO || (x.ID == oldO.ID && x.ID != Zero) {
				return newO
			}
		case *StructV:
			var nf map[string]Val
			for k, fv := range x.F {
				if r := rec(fv); r != nil {
					if nf == nil {
						nf = map[string]Val{}
						for kk, vv := range x.F {
							nf[kk] = vv
						}
					}
					nf[k] = r
				}
			}
			if nf != nil {
				return &StructV{K: x.K, F: nf}
			}
		}
		return nil
	}
	for c, v := range st.store {
		if r := rec(v); r != nil {
			st.store[c] = r
		}
	}
}

func shapeMatches(v Val, dims []int) bool {
	if len(dims) == 0 {
		return true
	}
	s, ok := v.(*SliceV)
	if !ok {
		return false
	}
	if !s.Len.IsInt() || int(s.Len.Int64()) != dims[0] {
		return false
	}
	if len(dims) == 1 {
		return true
	}
	if !s.IsV {
		return false
	}
	for _, e := range s.Vec {
		if !shapeMatches(e, dims[1:]) {
			return false
		}
	}
	return true
}

func (ex *Exec) shapeTerm(v Val, dims []int) *Term {
	s, ok := v.(*SliceV)
	if !ok {
		return False
	}
	t := Eq(s.Len, IntLit(int64(dims[0])))
	if len(dims) == 1 {
		return t
	}
	if s.IsV {
		cs := []*Term{t}
		for _, e := range s.Vec {
			cs = append(cs, ex.shapeTerm(e, dims[1:]))
		}
		return And(cs...)
	}
	if len(dims) == 2 && s.Lens != nil {
		i := Var(fmt.Sprintf("i!q%d", nextQ()), SInt)
		return And(t, Quant("forall", []*Term{i}, Imp(And(Le(Zero, i), Lt(i, s.Len)), Eq(Select(s.Lens, i), IntLit(int64(dims[1]))))))
	}
	return False
}

// freshByShape creates a fresh result from a `returns` clause: Variable, []Variable, [n]Variable, [a][b][c]Variable, none
func (ex *Exec) freshByShape(st *State, shape string, hint string) Val {
	dims, elem, _, err := parseShape(shape)
	if err != nil {
		panic(err)
	}
	var ek *Kind
	switch elem {
	case "Variable":
		ek = varKind
	case "int":
		ek = &Kind{K: "int"}
	case "none", "":
		return SV{T: Zero}
	default:
		panic(fmt.Errorf("returns: unknown element type %q", elem))
	}
	return ex.freshDims(st, dims, ek, hint)
}

func (ex *Exec) freshDims(st *State, dims []int, ek *Kind, hint string) Val {
	if len(dims) == 0 {
		return ex.freshVal(st, ek, hint)
	}
	if len(dims) == 1 {
		s := ex.freshVal(st, &Kind{K: "slice", Elem: ek}, hint).(*SliceV)
		if dims[0] >= 0 {
			// pin the length
			m := map[*Term]*Term{s.Len: IntLit(int64(dims[0]))}
			ex.substState(st, m)
			s2 := *s
			s2.Len = IntLit(int64(dims[0]))
			if dims[0] <= 64 {
				return s2.explode()
			}
			return &s2
		}
		return s
	}
	if dims[0] < 0 {
		if len(dims) == 2 && dims[1] < 0 {
			return ex.freshVal(st, &Kind{K: "slice", Elem: &Kind{K: "slice", Elem: ek}}, hint)
		}
		panic(unsupported("returns shape with symbolic outer dimension"))
	}
	inner := ek
	for range dims[1:] {
		inner = &Kind{K: "slice", Elem: inner}
	}
	vs := make([]Val, dims[0])
	for i := range vs {
		vs[i] = ex.freshDims(st, dims[1:], ek, fmt.Sprintf("%s_%d", hint, i))
	}
	return mkVec(inner, vs)
}

// eliminateDefs substitutes fresh symbols (created since freshMark) that are defined by a top-level equality
// added to the path condition since pcMark.
func (ex *Exec) eliminateDefs(st *State, pcMark, freshMark int, result Val) Val {
	isFresh := func(t *Term) bool {
		if t.Op != "var" {
			return false
		}
		i := strings.LastIndex(t.Name, "!")
		if i < 0 || strings.Contains(t.Name, "!q") {
			return false
		}
		var n int
		if _, err := fmt.Sscanf(t.Name[i+1:], "%d", &n); err != nil {
			return false
		}
		return n > freshMark
	}
	for iter := 0; iter < 8; iter++ {
		m := map[*Term]*Term{}
		for _, a := range st.pc[min(pcMark, len(st.pc)):] {
			if isFresh(a) && a.Sort == SBool {
				m[a] = True
				continue
			}
			if a.Op == "not" && isFresh(a.Args[0]) {
				m[a.Args[0]] = False
				continue
			}
			if a.Op == "=" && len(a.Args) == 2 {
				x, y := a.Args[0], a.Args[1]
				if !isFresh(x) && isFresh(y) {
					x, y = y, x
				}
				if isFresh(x) && !occurs(x, y) {
					if _, dup := m[x]; !dup {
						m[x] = y
					}
				}
			}
		}
		if len(m) == 0 {
			break
		}
		// avoid chains within one round: apply substitution to the map's own right-hand sides
		for k, v := range m {
			m[k] = Subst(v, m)
			if occurs(k, m[k]) {
				delete(m, k)
			}
		}
		ex.substState(st, m)
		result = substVal(result, m)
	}
	return result
}

func occurs(x, t *Term) bool {
	cache := map[*Term]bool{}
	var rec func(t *Term) bool
	rec = func(t *Term) bool {
		if t == x {
			return true
		}
		if r, ok := cache[t]; ok {
			return r
		}
		r := false
		for _, a := range t.Args {
			if rec(a) {
				r = true
				break
			}
		}
		cache[t] = r
		return r
	}
	return rec(t)
}

// ---------- inlining repo functions that have no contract ----------

func (ex *Exec) inlineCall(st *State, fi *FuncInfo, recv Val, args []Val, call *ast.CallExpr) Val {
	if ex.inlineDepth > 8 {
		panic(unsupported("inlining depth exceeded at %s (recursive function without contract?)", fi.Key))
	}
	ex.note("function %s has no contract: its body is inlined at the call site", fi.Key)
	saved := *ex
	defer func() {
		obls, notes, so := ex.obls, ex.notes, ex.siteOrd
		*ex = saved
		ex.obls, ex.notes, ex.siteOrd = obls, notes, so
	}()
	ex.inlineDepth++
	ex.fi = fi
	ex.info = fi.Pkg.TypesInfo
	ex.ct = &Contract{Key: fi.Key, Loops: map[int]*LoopSpec{}, Props: saved.ct.Props, Opts: map[string]string{}, Modifies: nil}
	ex.loopOrd = 0
	ex.lets = map[string]*CExpr{}
	ex.resultNames = nil
	ex.resultKinds = nil
	// frame of the outer function still applies to what the inlined body writes through aliases
	sig := fi.Sig
	if r := sig.Recv(); r != nil && r.Name() != "" && r.Name() != "_" {
		st.store[ex.cellOf(r)] = recv
	}
	for i := 0; i < sig.Params().Len(); i++ {
		p := sig.Params().At(i)
		if p.Name() == "" || p.Name() == "_" {
			continue
		}
		st.store[ex.cellOf(p)] = args[i]
		if strings.HasSuffix(p.Type().String(), "gnark/frontend.API") {
			ex.apiObj = p
		}
	}
	for i := 0; i < sig.Results().Len(); i++ {
		r := sig.Results().At(i)
		if r.Name() != "" && r.Name() != "_" {
			st.store[ex.cellOf(r)] = zeroVal(kindOf(r.Type()))
			ex.resultNames = append(ex.resultNames, r.Name())
		} else {
			ex.resultNames = append(ex.resultNames, "")
		}
	}
	basePC := len(st.pc)
	work := st.clone()
	outs := ex.execBlock([]*State{work}, fi.Body.List)
	var rets []*State
	for _, o := range outs {
		if o.ctl == ctlPanic {
			continue
		}
		rets = append(rets, o)
	}
	if len(rets) == 0 {
		panic(abortPath{})
	}
	// merge all return states into one
	merged := rets[0]
	for _, o := range rets[1:] {
		// distinguishing condition: conjunction of o's extra path conditions
		var extra []*Term
		for _, t := range o.pc[basePC:] {
			extra = append(extra, t)
		}
		c := And(extra...)
		m := ex.mergeStatesRet(c, o, merged, basePC)
		merged = m
	}
	*st = *merged
	st.ctl = ctlNormal
	var res Val = SV{T: Zero}
	if len(merged.ret) == 1 {
		res = merged.ret[0]
	} else if len(merged.ret) > 1 {
		res = &TupleV{merged.ret}
	}
	st.ret = nil
	return res
}

// mergeStatesRet merges two returned states (a under condition c, else b).
func (ex *Exec) mergeStatesRet(c *Term, a, b *State, basePC int) *State {
	m := &State{store: map[*Cell]Val{}, ctl: ctlReturn}
	m.pc = append(m.pc, a.pc[:basePC]...)
	var eb []*Term
	for _, t := range b.pc[basePC:] {
		eb = append(eb, t)
	}
	// a's extras are implied by c; b's extras hold when !c
	if len(eb) > 0 {
		m.pc = append(m.pc, Or(c, And(eb...)))
	}
	for k, va := range a.store {
		if vb, ok := b.store[k]; ok {
			func() {
				defer func() {
					if r := recover(); r != nil {
						m.store[k] = va
					}
				}()
				m.store[k] = mergeVal(c, va, vb)
			}()
		}
	}
	if a.ok != nil {
		m.ok = Ite(c, a.ok, b.ok)
	}
	for i := range a.ret {
		m.ret = append(m.ret, mergeVal(c, a.ret[i], b.ret[i]))
	}
	return m
}

func (ex *Exec) callFuncValue(st *State, fv Val, call *ast.CallExpr) Val {
	f, ok := fv.(*FuncV)
	if !ok {
		if sv, isSV := fv.(SV); isSV && sv.T.Sort == SInt {
			// call of an unknown function value (parameter or captured variable): one trace event
			ex.traceEvent(st, "call", sv.T)
			sig, _ := ex.info.TypeOf(call.Fun).Underlying().(*types.Signature)
			if sig == nil || sig.Results().Len() == 0 {
				return SV{T: Zero}
			}
			return ex.freshResult(st, sig, "fv")
		}
		panic(unsupported("call of %T at %s", fv, ex.pos(call)))
	}
	ex.traceEvent(st, "call:"+f.Name)
	sig, _ := ex.info.TypeOf(call.Fun).Underlying().(*types.Signature)
	if sig == nil || sig.Results().Len() == 0 {
		return SV{T: Zero}
	}
	return ex.freshResult(st, sig, "fv")
}

// ---------- a few externs computed directly ----------

func (ex *Exec) evalKnownExtern(st *State, key string, recv Val, recvExpr ast.Expr, args []Val, call *ast.CallExpr) (Val, bool) {
	switch key {
	case "math/big.Int.SetString":
		// concrete parse when the argument is a literal string (table initialisers)
		if s, ok := args[0].(SV); ok && s.T.Op == "strlit" {
			if b, ok2 := args[1].(SV); ok2 && b.T.IsInt() {
				v, okp := new(big.Int).SetString(s.T.Name, int(b.T.Int64()))
				r := recv.(*RefV)
				if okp {
					ex.storeRef(st, r, SV{T: BigLit(v)}, call)
					return &TupleV{[]Val{r, SV{T: True}}}, true
				}
				return &TupleV{[]Val{&RefV{Nil: true}, SV{T: False}}}, true
			}
		}
	case "fmt.Println", "fmt.Print", "fmt.Printf":
		// writes to standard output are counted in the ghost variable stdoutWrites; the last argument list is kept
		c := ex.ghostCell("stdoutWrites")
		cur, ok := st.store[c].(SV)
		if !ok {
			cur = SV{T: Zero}
		}
		st.store[c] = SV{T: Add(cur.T, One)}
		if rest, ok := args[len(args)-1].(*SliceV); ok && rest.IsV && len(rest.Vec) == 1 {
			st.store[ex.ghostCell("stdoutLast")] = rest.Vec[0]
		}
		st.recordCall(key[strings.LastIndex(key, ".")+1:], nil)
		return &TupleV{[]Val{SV{T: Fresh("n", SInt)}, SV{T: Fresh("err", SInt)}}}, true
	case "fmt.Errorf", "errors.New":
		e := Fresh("err", SInt)
		st.assume(Not(Eq(e, Zero)))
		return SV{T: e}, true
	case "fmt.Sprintf":
		if f, ok := args[0].(SV); ok && f.T.Op == "strlit" && f.T.Name == "0x%s" {
			if rest, ok := args[1].(*SliceV); ok && rest.IsV && len(rest.Vec) == 1 {
				if a, ok := rest.Vec[0].(SV); ok && a.T.Sort == SStr {
					return SV{T: App("str.concat", SStr, StrLit("0x"), a.T)}, true
				}
			}
		}
		ex.note("fmt.Sprintf result modelled as an unconstrained string")
		return SV{T: Fresh("str", SStr)}, true
	}
	return nil, false
}

// pathThroughObj reports whether the path from the pointee of r along accs crosses an opaque object's ghost field.
func (ex *Exec) pathThroughObj(st *State, r *RefV, accs []Acc) bool {
	v := ex.load(st, r, nil)
	for _, a := range accs {
		if _, ok := v.(*ObjV); ok {
			return true
		}
		v = ex.access(st, v, a, nil)
	}
	return false
}

// findByTag returns a slice value with the given backing-array tag held by some variable or field.
func (ex *Exec) findByTag(st *State, tag int) *SliceV {
	var found *SliceV
	var rec func(v Val)
	rec = func(v Val) {
		if found != nil {
			return
		}
		switch x := v.(type) {
		case *SliceV:
			if x.Tag == tag {
				found = x
			}
		case *StructV:
			for _, fv := range x.F {
				rec(fv)
			}
		}
	}
	for _, v := range st.store {
		rec(v)
	}
	return found
}

func (ex *Exec) ghostCell(name string) *Cell {
	if ex.ghostCells == nil {
		ex.ghostCells = map[string]*Cell{}
	}
	if c, ok := ex.ghostCells[name]; ok {
		return c
	}
	c := newCell(name)
	ex.ghostCells[name] = c
	return c
}
