package main

import (
	"fmt"
	"math/big"
	"strings"
)

// Concrete evaluation of specification terms: an interpreter for the spec dialect on literal data. It is used to
// validate the specification library itself against external references (Keccak digests by x/crypto, Poseidon by iden3):
// the SMT solvers cannot evaluate 24 rounds of Keccak-f on a concrete message in reasonable time, an interpreter can.
// Nothing proved elsewhere depends on this file.

type cval struct {
	k   byte // 'i' integer, 'b' bool, 'v' bit-vector, 'a' array
	i   *big.Int
	w   int
	b   bool
	arr *carr
}

type carr struct {
	def  *cval
	m    map[string]*cval
	base *carr
	lazy func(i *big.Int) *cval
}

func (a *carr) get(i *big.Int) *cval {
	for c := a; c != nil; c = c.base {
		if v, ok := c.m[i.String()]; ok {
			return v
		}
		if c.lazy != nil {
			return c.lazy(i)
		}
		if c.def != nil {
			return c.def
		}
	}
	return poison // an element the data does not define: arbitrary; the result must not depend on it
}

var poison = &cval{k: '?'}

func anyPoison(vs ...*cval) bool {
	for _, v := range vs {
		if v.k == '?' {
			return true
		}
	}
	return false
}

func cInt(v *big.Int) *cval { return &cval{k: 'i', i: v} }
func cBool(b bool) *cval    { return &cval{k: 'b', b: b} }
func cBV(v *big.Int, w int) *cval {
	m := new(big.Int).Lsh(big.NewInt(1), uint(w))
	return &cval{k: 'v', i: new(big.Int).Mod(v, m), w: w}
}

func (v *cval) key() string {
	switch v.k {
	case 'i':
		return "i" + v.i.String()
	case 'b':
		if v.b {
			return "T"
		}
		return "F"
	case 'v':
		return fmt.Sprintf("v%d:%s", v.w, v.i.String())
	case '?':
		return "?"
	}
	return fmt.Sprintf("a%p", v.arr)
}

type concreteEval struct {
	lib     *SpecLib
	consts  map[string]*cval                    // values of declared constants (tables)
	special map[string]func(args []*cval) *cval // declared functions characterised by axioms
	memo    map[string]*cval
	steps   int
}

func newConcreteEval(lib *SpecLib) *concreteEval {
	ce := &concreteEval{lib: lib, consts: map[string]*cval{}, special: map[string]func([]*cval) *cval{}, memo: map[string]*cval{}}
	// keccak.pad: axiom keccak_pad_sel — element i is keccak.padBit(d, n, dom, i)
	ce.special["keccak.pad"] = func(a []*cval) *cval {
		return &cval{k: 'a', arr: &carr{lazy: func(i *big.Int) *cval {
			return ce.call("keccak.padBit", []*cval{a[0], a[1], a[2], cInt(i)})
		}}}
	}
	// pack.insBits / pack.delBits: axioms insBits_sel / delBits_sel
	ce.special["pack.insBits"] = func(a []*cval) *cval {
		return &cval{k: 'a', arr: &carr{lazy: func(i *big.Int) *cval {
			return ce.call("pack.insBit", []*cval{a[0], a[1], a[2], a[3], cInt(i)})
		}}}
	}
	ce.special["pack.delBits"] = func(a []*cval) *cval {
		return &cval{k: 'a', arr: &carr{lazy: func(i *big.Int) *cval {
			return ce.call("pack.delBit", []*cval{a[0], a[1], a[2], a[3], cInt(i)})
		}}}
	}
	// pack.beSwap: axiom beSwap_sel
	ce.special["pack.beSwap"] = func(a []*cval) *cval {
		n := a[1].i
		return &cval{k: 'a', arr: &carr{lazy: func(i *big.Int) *cval {
			if i.Sign() < 0 || i.Cmp(n) >= 0 {
				return cInt(new(big.Int))
			}
			return a[0].arr.get(ce.call("pack.beIdx", []*cval{cInt(i), a[1]}).i)
		}}}
	}
	return ce
}

func intArray(vs []*big.Int) *cval {
	m := map[string]*cval{}
	for i, v := range vs {
		m[fmt.Sprint(i)] = cInt(v)
	}
	return &cval{k: 'a', arr: &carr{def: cInt(new(big.Int)), m: m}}
}

func (ce *concreteEval) call(name string, args []*cval) *cval {
	f := ce.lib.Funs[name]
	if f == nil {
		panic("concrete: unknown function " + name)
	}
	if f.Body == nil {
		if sp := ce.special[name]; sp != nil {
			return sp(args)
		}
		panic("concrete: declared function " + name + " has no evaluation rule")
	}
	var kb strings.Builder
	kb.WriteString(name)
	for _, a := range args {
		kb.WriteByte('|')
		kb.WriteString(a.key())
	}
	k := kb.String()
	if v, ok := ce.memo[k]; ok {
		return v
	}
	env := map[*Term]*cval{}
	for i, p := range f.Params {
		env[p] = args[i]
	}
	v := ce.eval(f.Body, env, map[*Term]*cval{})
	ce.memo[k] = v
	return v
}

func (ce *concreteEval) eval(t *Term, env map[*Term]*cval, cache map[*Term]*cval) *cval {
	if v, ok := cache[t]; ok {
		return v
	}
	v := ce.eval1(t, env, cache)
	cache[t] = v
	return v
}

func (ce *concreteEval) eval1(t *Term, env map[*Term]*cval, cache map[*Term]*cval) *cval {
	ce.steps++
	ev := func(x *Term) *cval { return ce.eval(x, env, cache) }
	switch t.Op {
	case "int":
		return cInt(t.Int)
	case "bool":
		return cBool(t.B)
	case "bvlit":
		return cBV(t.Int, t.Sort.W)
	case "var":
		if v, ok := env[t]; ok {
			return v
		}
		if v, ok := ce.consts[t.Name]; ok {
			return v
		}
		if t.Name == "FIELD_P" || t.Name == "P" {
			return cInt(fieldP)
		}
		panic("concrete: free variable " + t.Name)
	case "constarr":
		return &cval{k: 'a', arr: &carr{def: ev(t.Args[0])}}
	case "select":
		return ev(t.Args[0]).arr.get(ev(t.Args[1]).i)
	case "store":
		a := ev(t.Args[0])
		return &cval{k: 'a', arr: &carr{base: a.arr, m: map[string]*cval{ev(t.Args[1]).i.String(): ev(t.Args[2])}}}
	case "ite":
		if ev(t.Args[0]).b {
			return ev(t.Args[1])
		}
		return ev(t.Args[2])
	case "and":
		for _, a := range t.Args {
			if !ev(a).b {
				return cBool(false)
			}
		}
		return cBool(true)
	case "or":
		for _, a := range t.Args {
			if ev(a).b {
				return cBool(true)
			}
		}
		return cBool(false)
	case "not":
		return cBool(!ev(t.Args[0]).b)
	case "=>":
		return cBool(!ev(t.Args[0]).b || ev(t.Args[1]).b)
	case "=":
		a, b := ev(t.Args[0]), ev(t.Args[1])
		if anyPoison(a, b) {
			return poison
		}
		if a.k == 'b' {
			return cBool(a.b == b.b)
		}
		if a.k == 'a' {
			panic("concrete: array equality")
		}
		return cBool(a.i.Cmp(b.i) == 0)
	case "+", "*", "-", "div", "mod", "<", "<=", ">", ">=", "abs":
		for _, a := range t.Args {
			if ev(a).k == '?' {
				return poison
			}
		}
		return ce.arith(t, ev)
	}
	if _, ok := ce.lib.Funs[t.Op]; ok {
		args := make([]*cval, len(t.Args))
		for i, a := range t.Args {
			args[i] = ev(a)
		}
		return ce.call(t.Op, args)
	}
	for _, a := range t.Args {
		if ev(a).k == '?' {
			return poison
		}
	}
	return ce.arith(t, ev)
}

func (ce *concreteEval) arith(t *Term, ev func(*Term) *cval) *cval {
	switch t.Op {
	case "+":
		r := new(big.Int)
		for _, a := range t.Args {
			r.Add(r, ev(a).i)
		}
		return cInt(r)
	case "*":
		r := big.NewInt(1)
		for _, a := range t.Args {
			r.Mul(r, ev(a).i)
		}
		return cInt(r)
	case "-":
		if len(t.Args) == 1 {
			return cInt(new(big.Int).Neg(ev(t.Args[0]).i))
		}
		r := new(big.Int).Set(ev(t.Args[0]).i)
		for _, a := range t.Args[1:] {
			r.Sub(r, ev(a).i)
		}
		return cInt(r)
	case "div", "mod":
		a, b := ev(t.Args[0]).i, ev(t.Args[1]).i
		if b.Sign() == 0 {
			panic("concrete: division by zero")
		}
		q, m := new(big.Int).DivMod(a, b, new(big.Int)) // Euclidean, as in SMT-LIB
		if t.Op == "div" {
			return cInt(q)
		}
		return cInt(m)
	case "abs":
		return cInt(new(big.Int).Abs(ev(t.Args[0]).i))
	case "<", "<=", ">", ">=":
		c := ev(t.Args[0]).i.Cmp(ev(t.Args[1]).i)
		switch t.Op {
		case "<":
			return cBool(c < 0)
		case "<=":
			return cBool(c <= 0)
		case ">":
			return cBool(c > 0)
		}
		return cBool(c >= 0)
	case "bvxor":
		a, b := ev(t.Args[0]), ev(t.Args[1])
		return cBV(new(big.Int).Xor(a.i, b.i), a.w)
	case "bvand":
		a, b := ev(t.Args[0]), ev(t.Args[1])
		return cBV(new(big.Int).And(a.i, b.i), a.w)
	case "bvor":
		a, b := ev(t.Args[0]), ev(t.Args[1])
		return cBV(new(big.Int).Or(a.i, b.i), a.w)
	case "bvnot":
		a := ev(t.Args[0])
		m := new(big.Int).Sub(new(big.Int).Lsh(big.NewInt(1), uint(a.w)), big.NewInt(1))
		return cBV(new(big.Int).Xor(a.i, m), a.w)
	case "bvadd":
		a, b := ev(t.Args[0]), ev(t.Args[1])
		return cBV(new(big.Int).Add(a.i, b.i), a.w)
	case "concat":
		a, b := ev(t.Args[0]), ev(t.Args[1])
		return cBV(new(big.Int).Or(new(big.Int).Lsh(a.i, uint(b.w)), b.i), a.w+b.w)
	case "bv2nat":
		return cInt(ev(t.Args[0]).i)
	}
	if strings.HasPrefix(t.Op, "(_ ") {
		fs := strings.Fields(strings.Trim(t.Op, "()"))
		a := ev(t.Args[0])
		switch fs[1] {
		case "extract":
			var hi, lo int
			fmt.Sscanf(fs[2], "%d", &hi)
			fmt.Sscanf(fs[3], "%d", &lo)
			return cBV(new(big.Int).Rsh(a.i, uint(lo)), hi-lo+1)
		case "rotate_left":
			var k int
			fmt.Sscanf(fs[2], "%d", &k)
			k %= a.w
			l := new(big.Int).Lsh(a.i, uint(k))
			r := new(big.Int).Rsh(a.i, uint(a.w-k))
			return cBV(new(big.Int).Or(l, r), a.w)
		case "zero_extend":
			var k int
			fmt.Sscanf(fs[2], "%d", &k)
			return cBV(a.i, a.w+k)
		case "int2bv":
			var k int
			fmt.Sscanf(fs[2], "%d", &k)
			return cBV(a.i, k)
		}
		panic("concrete: indexed operator " + t.Op)
	}
	panic("concrete: operator " + t.Op)
}

// bitArray: the LSB-first bit array of a byte string.
func bitArray(msg []byte) *cval {
	m := map[string]*cval{}
	for i, b := range msg {
		for z := 0; z < 8; z++ {
			if (b>>uint(z))&1 == 1 {
				m[fmt.Sprint(8*i+z)] = cInt(big.NewInt(1))
			}
		}
	}
	return &cval{k: 'a', arr: &carr{def: cInt(new(big.Int)), m: m}}
}

// keccakSpecDigest evaluates keccak.digest of the specification on a concrete message.
func keccakSpecDigest(lib *SpecLib, msg []byte, dom int64) (out []byte, err error) {
	defer func() {
		if r := recover(); r != nil {
			err = fmt.Errorf("%v", r)
		}
	}()
	ce := newConcreteEval(lib)
	d := ce.call("keccak.digest", []*cval{bitArray(msg), cInt(big.NewInt(int64(8 * len(msg)))), cInt(big.NewInt(dom))})
	out = make([]byte, 32)
	for t := 0; t < 256; t++ {
		if d.arr.get(big.NewInt(int64(t))).i.Sign() != 0 {
			out[t/8] |= 1 << uint(t%8)
		}
	}
	return out, nil
}
