package main

import (
	"fmt"
	"math/big"
	"os"
	"path/filepath"
	"sort"
	"strings"
)

// SpecFun is a function of the specification library.
type SpecFun struct {
	Name    string
	Params  []*Term // bound variables
	Res     *Sort
	Body    *Term // nil for declared (uninterpreted) functions
	Rec     bool
	Always  bool // always revealed
	Builtin bool // constructor / selector of a declared datatype: never declared or defined in a script
	Ground  bool // applications to literal arguments are computed by the generator (tables)
	File    string
	ArgS    []*Sort
	Trusted bool // declared (uninterpreted) — part of the trusted vocabulary
}

type Lemma struct {
	Use     []*SX // explicit instances of other lemmas
	Name    string
	Stmt    *Term
	Measure *SX // measure expression over the outermost bound variables (nil: direct proof)
	Reveal  []string
	Lemmas  []string
	Axiom   bool
	File    string
	Timeout int
	Inst    []*SX // explicit instantiations of the induction hypothesis: lists of terms for the bound vars
	Cases   []*SX // case split: each a formula over bound vars; goal is proved under each case and under none
	Unfold  []*SX // explicit ground unfoldings f(args) = body[args] added as facts (for opaque rec functions)
}

type SpecLib struct {
	Funs   map[string]*SpecFun
	Lemmas map[string]*Lemma
	Consts map[string]*Term
	Sorts  map[string]bool
	Order  []string // lemma order
	Datatypes     map[string]string // datatype name -> constructor list (SMT-LIB text)
	DatatypeOrder []string
	CtorSels      map[string][]string // constructor -> selector names
}

func NewSpecLib() *SpecLib {
	return &SpecLib{Funs: map[string]*SpecFun{}, Lemmas: map[string]*Lemma{}, Consts: map[string]*Term{}, Sorts: map[string]bool{}}
}

type sxScope struct {
	vars   map[string]*Term
	parent *sxScope
}

func (s *sxScope) lookup(n string) *Term {
	for c := s; c != nil; c = c.parent {
		if t, ok := c.vars[n]; ok {
			return t
		}
	}
	return nil
}

var fieldP, _ = new(big.Int).SetString("21888242871839275222246405745257275088548364400416034343698204186575808495617", 10)

func (lib *SpecLib) LoadDir(dir string) error {
	files, _ := filepath.Glob(filepath.Join(dir, "*.smt2"))
	sort.Strings(files)
	for _, f := range files {
		if err := lib.LoadFile(f); err != nil {
			return fmt.Errorf("%s: %v", f, err)
		}
	}
	return nil
}

func (lib *SpecLib) LoadFile(path string) error {
	src, err := os.ReadFile(path)
	if err != nil {
		return err
	}
	xs, err := ParseSX(string(src))
	if err != nil {
		return err
	}
	base := filepath.Base(path)
	for _, x := range xs {
		if err := lib.loadCmd(x, base); err != nil {
			return fmt.Errorf("in %s: %v", trunc(x.String(), 80), err)
		}
	}
	return nil
}

func trunc(s string, n int) string {
	if len(s) > n {
		return s[:n] + "…"
	}
	return s
}

func (lib *SpecLib) loadCmd(x *SX, file string) error {
	switch x.Head() {
	case "declare-sort":
		lib.Sorts[x.List[1].Atom] = true
	case "declare-datatype":
		// (declare-datatype Name ((ctor (sel Sort) ...) ...)): an algebraic datatype; constructors and selectors become
		// built-in functions, the tester of constructor c is written ((_ is c) x)
		name := x.List[1].Atom
		if lib.Datatypes == nil {
			lib.Datatypes = map[string]string{}
		}
		lib.Datatypes[name] = x.List[2].String()
		lib.DatatypeOrder = append(lib.DatatypeOrder, name)
		dt := SNamed(name)
		for _, c := range x.List[2].List {
			cn := c.List[0].Atom
			var as []*Sort
			if lib.CtorSels == nil {
				lib.CtorSels = map[string][]string{}
			}
			lib.CtorSels[cn] = []string{}
			for _, f := range c.List[1:] {
				fs, err := SortFromSX(f.List[1])
				if err != nil {
					return err
				}
				as = append(as, fs)
				lib.CtorSels[cn] = append(lib.CtorSels[cn], f.List[0].Atom)
				lib.Funs[f.List[0].Atom] = &SpecFun{Name: f.List[0].Atom, ArgS: []*Sort{dt}, Res: fs, File: file, Builtin: true}
			}
			lib.Funs[cn] = &SpecFun{Name: cn, ArgS: as, Res: dt, File: file, Builtin: true}
		}
	case "declare-const":
		s, err := SortFromSX(x.List[2])
		if err != nil {
			return err
		}
		lib.Consts[x.List[1].Atom] = Var(x.List[1].Atom, s)
	case "declare-fun":
		name := x.List[1].Atom
		var as []*Sort
		for _, a := range x.List[2].List {
			s, err := SortFromSX(a)
			if err != nil {
				return err
			}
			as = append(as, s)
		}
		r, err := SortFromSX(x.List[3])
		if err != nil {
			return err
		}
		lib.Funs[name] = &SpecFun{Name: name, ArgS: as, Res: r, File: file, Trusted: true}
	case "define-fun", "define-fun-rec":
		name := x.List[1].Atom
		sc := &sxScope{vars: map[string]*Term{}}
		f := &SpecFun{Name: name, File: file, Rec: x.Head() == "define-fun-rec"}
		for _, p := range x.List[2].List {
			s, err := SortFromSX(p.List[1])
			if err != nil {
				return err
			}
			v := Var(name+"."+p.List[0].Atom, s)
			sc.vars[p.List[0].Atom] = v
			f.Params = append(f.Params, v)
			f.ArgS = append(f.ArgS, s)
		}
		r, err := SortFromSX(x.List[3])
		if err != nil {
			return err
		}
		f.Res = r
		lib.Funs[name] = f // allow recursion
		body, err := lib.TermFromSX(x.List[4], sc)
		if err != nil {
			delete(lib.Funs, name)
			return err
		}
		if body.Sort != r {
			return fmt.Errorf("%s: body sort %s != %s", name, body.Sort, r)
		}
		f.Body = body
	case "ground-eval":
		for _, a := range x.List[1:] {
			f := lib.Funs[a.Atom]
			if f == nil {
				return fmt.Errorf("ground-eval: unknown %s", a.Atom)
			}
			f.Ground = true
		}
	case "always-reveal":
		for _, a := range x.List[1:] {
			f := lib.Funs[a.Atom]
			if f == nil {
				return fmt.Errorf("always-reveal: unknown %s", a.Atom)
			}
			f.Always = true
		}
	case "axiom", "lemma":
		name := x.List[1].Atom
		st, err := lib.TermFromSX(x.List[2], &sxScope{vars: map[string]*Term{}})
		if err != nil {
			return err
		}
		l := &Lemma{Name: name, Stmt: st, Axiom: x.Head() == "axiom", File: file}
		for i := 3; i+1 < len(x.List); i += 2 {
			k, v := x.List[i].Atom, x.List[i+1]
			switch k {
			case ":induct":
				l.Measure = v
			case ":reveal":
				for _, a := range v.List {
					l.Reveal = append(l.Reveal, a.Atom)
				}
			case ":lemmas":
				for _, a := range v.List {
					l.Lemmas = append(l.Lemmas, a.Atom)
				}
			case ":timeout":
				fmt.Sscanf(v.Atom, "%d", &l.Timeout)
			case ":inst":
				l.Inst = append(l.Inst, v)
			case ":use":
				// :use ((lemma t1 t2 …) …): explicit instances of earlier lemmas (their bound variables in order)
				l.Use = append(l.Use, v.List...)
			case ":cases":
				l.Cases = v.List
			case ":unfold":
				l.Unfold = append(l.Unfold, v.List...)
			default:
				return fmt.Errorf("lemma %s: unknown attribute %s", name, k)
			}
		}
		if _, dup := lib.Lemmas[name]; dup {
			return fmt.Errorf("duplicate lemma %s", name)
		}
		lib.Lemmas[name] = l
		lib.Order = append(lib.Order, name)
	default:
		return fmt.Errorf("unknown spec command %s", x.Head())
	}
	return nil
}

var smtArith = map[string]bool{"+": true, "-": true, "*": true, "div": true, "mod": true, "abs": true}
var smtCmp = map[string]bool{"<": true, "<=": true, ">": true, ">=": true}
var smtBoolOps = map[string]bool{"and": true, "or": true, "not": true, "=>": true, "xor": true}

// TermFromSX converts an s-expression in SMT-LIB syntax into a term.
func (lib *SpecLib) TermFromSX(x *SX, sc *sxScope) (*Term, error) {
	if !x.IsL {
		a := x.Atom
		if a == "true" {
			return True, nil
		}
		if a == "false" {
			return False, nil
		}
		if a == "FIELD_P" {
			return BigLit(fieldP), nil
		}
		if strings.HasPrefix(a, "#x") {
			v, ok := new(big.Int).SetString(a[2:], 16)
			if !ok {
				return nil, fmt.Errorf("bad literal %s", a)
			}
			return BVLit(v, 4*(len(a)-2)), nil
		}
		if strings.HasPrefix(a, "#b") {
			v, ok := new(big.Int).SetString(a[2:], 2)
			if !ok {
				return nil, fmt.Errorf("bad literal %s", a)
			}
			return BVLit(v, len(a)-2), nil
		}
		if a[0] >= '0' && a[0] <= '9' {
			v, ok := new(big.Int).SetString(a, 0)
			if !ok {
				return nil, fmt.Errorf("bad literal %s", a)
			}
			return BigLit(v), nil
		}
		if a[0] == '"' {
			return StrLit(a[1 : len(a)-1]), nil
		}
		if t := sc.lookup(a); t != nil {
			return t, nil
		}
		if c, ok := lib.Consts[a]; ok {
			return c, nil
		}
		if f, ok := lib.Funs[a]; ok && len(f.ArgS) == 0 {
			return App(a, f.Res), nil
		}
		return nil, fmt.Errorf("unknown symbol %s", a)
	}
	h := x.Head()
	switch h {
	case "forall", "exists":
		nsc := &sxScope{vars: map[string]*Term{}, parent: sc}
		var bound []*Term
		for _, b := range x.List[1].List {
			s, err := SortFromSX(b.List[1])
			if err != nil {
				return nil, err
			}
			freshCtr++
			v := Var(fmt.Sprintf("%s!q%d", b.List[0].Atom, freshCtr), s)
			nsc.vars[b.List[0].Atom] = v
			bound = append(bound, v)
		}
		bodyX := x.List[2]
		var pats [][]*Term
		if bodyX.Head() == "!" {
			for i := 2; i+1 < len(bodyX.List); i += 2 {
				if bodyX.List[i].Atom == ":pattern" {
					var p []*Term
					for _, px := range bodyX.List[i+1].List {
						pt, err := lib.TermFromSX(px, nsc)
						if err != nil {
							return nil, err
						}
						p = append(p, pt)
					}
					pats = append(pats, p)
				}
			}
			bodyX = bodyX.List[1]
		}
		body, err := lib.TermFromSX(bodyX, nsc)
		if err != nil {
			return nil, err
		}
		return Quant(h, bound, body, pats...), nil
	case "let":
		nsc := &sxScope{vars: map[string]*Term{}, parent: sc}
		for _, b := range x.List[1].List {
			t, err := lib.TermFromSX(b.List[1], sc)
			if err != nil {
				return nil, err
			}
			nsc.vars[b.List[0].Atom] = t
		}
		return lib.TermFromSX(x.List[2], nsc)
	case "!":
		return lib.TermFromSX(x.List[1], sc)
	}
	if x.List[0].IsL {
		// ((as const (Array Int Int)) v)  or ((_ extract i j) t) etc.
		hx := x.List[0]
		if hx.Head() == "as" && hx.List[1].Atom == "const" {
			s, err := SortFromSX(hx.List[2])
			if err != nil {
				return nil, err
			}
			v, err := lib.TermFromSX(x.List[1], sc)
			if err != nil {
				return nil, err
			}
			return ConstArr(s, v), nil
		}
		if hx.Head() == "_" {
			op := hx.String()
			var args []*Term
			for _, a := range x.List[1:] {
				t, err := lib.TermFromSX(a, sc)
				if err != nil {
					return nil, err
				}
				args = append(args, t)
			}
			switch hx.List[1].Atom {
			case "extract":
				var hi, lo int
				fmt.Sscanf(hx.List[2].Atom, "%d", &hi)
				fmt.Sscanf(hx.List[3].Atom, "%d", &lo)
				return App(op, SBV(hi-lo+1), args...), nil
			case "rotate_left", "rotate_right":
				return App(op, args[0].Sort, args...), nil
			case "zero_extend":
				var k int
				fmt.Sscanf(hx.List[2].Atom, "%d", &k)
				return App(op, SBV(args[0].Sort.W+k), args...), nil
			case "int2bv":
				var k int
				fmt.Sscanf(hx.List[2].Atom, "%d", &k)
				return App(op, SBV(k), args...), nil
			case "is":
				return App(op, SBool, args...), nil
			}
			return nil, fmt.Errorf("unsupported indexed op %s", op)
		}
		return nil, fmt.Errorf("bad head %s", hx)
	}
	if h == "_" && len(x.List) == 3 && strings.HasPrefix(x.List[1].Atom, "bv") {
		v, _ := new(big.Int).SetString(x.List[1].Atom[2:], 10)
		var w int
		fmt.Sscanf(x.List[2].Atom, "%d", &w)
		return BVLit(v, w), nil
	}
	var args []*Term
	for _, a := range x.List[1:] {
		t, err := lib.TermFromSX(a, sc)
		if err != nil {
			return nil, err
		}
		args = append(args, t)
	}
	switch {
	case smtArith[h]:
		if h == "-" && len(args) > 2 {
			t := args[0]
			for _, a := range args[1:] {
				t = Sub(t, a)
			}
			return t, nil
		}
		return App(h, SInt, args...), nil
	case smtCmp[h]:
		return App(h, SBool, args...), nil
	case h == "=" || h == "distinct":
		if len(args) == 2 && args[0].Sort != args[1].Sort {
			return nil, fmt.Errorf("= on different sorts %s / %s in %s", args[0].Sort, args[1].Sort, x)
		}
		return App(h, SBool, args...), nil
	case smtBoolOps[h]:
		for _, a := range args {
			if a.Sort != SBool {
				return nil, fmt.Errorf("%s applied to non-bool in %s", h, trunc(x.String(), 100))
			}
		}
		return App(h, SBool, args...), nil
	case h == "ite":
		if args[1].Sort != args[2].Sort {
			return nil, fmt.Errorf("ite branches differ in sort: %s", trunc(x.String(), 100))
		}
		return App("ite", args[1].Sort, args...), nil
	case h == "select":
		if !args[0].Sort.IsArr() {
			return nil, fmt.Errorf("select on non-array: %s", x)
		}
		return App("select", args[0].Sort.Elem, args...), nil
	case h == "store":
		return App("store", args[0].Sort, args...), nil
	case h == "bvxor" || h == "bvand" || h == "bvor" || h == "bvnot" || h == "bvadd" || h == "bvshl" || h == "bvlshr":
		return App(h, args[0].Sort, args...), nil
	case h == "concat":
		return App(h, SBV(args[0].Sort.W+args[1].Sort.W), args...), nil
	case h == "bv2nat":
		return App(h, SInt, args...), nil
	}
	if f, ok := lib.Funs[h]; ok {
		if len(args) != len(f.ArgS) {
			return nil, fmt.Errorf("%s: arity %d, got %d", h, len(f.ArgS), len(args))
		}
		for i := range args {
			if args[i].Sort != f.ArgS[i] {
				return nil, fmt.Errorf("%s: arg %d has sort %s, want %s", h, i, args[i].Sort, f.ArgS[i])
			}
		}
		return App(h, f.Res, args...), nil
	}
	return nil, fmt.Errorf("unknown function %s", h)
}

// Instantiate returns body[params := args].
func (f *SpecFun) Instantiate(args []*Term) *Term {
	m := map[*Term]*Term{}
	for i, p := range f.Params {
		m[p] = args[i]
	}
	return Subst(f.Body, m)
}

// groundEval evaluates applications of defined spec functions to ground arguments by unfolding (bounded by fuel).
func (lib *SpecLib) groundEval(t *Term, fuel *int) *Term {
	if *fuel <= 0 {
		return nil
	}
	switch t.Op {
	case "int", "bool", "bvlit", "strlit", "var":
		return t
	case "forall", "exists":
		return nil
	}
	if f, ok := lib.Funs[t.Op]; ok && f.Body != nil {
		args := make([]*Term, len(t.Args))
		for i, a := range t.Args {
			args[i] = lib.groundEval(a, fuel)
			if args[i] == nil {
				return nil
			}
		}
		*fuel--
		return lib.groundEval(f.Instantiate(args), fuel)
	}
	if t.Op == "ite" {
		c := lib.groundEval(t.Args[0], fuel)
		if c == nil {
			return nil
		}
		if c.IsTrue() {
			return lib.groundEval(t.Args[1], fuel)
		}
		if c.IsFalse() {
			return lib.groundEval(t.Args[2], fuel)
		}
	}
	if len(t.Args) == 0 {
		return t
	}
	args := make([]*Term, len(t.Args))
	changed := false
	for i, a := range t.Args {
		args[i] = lib.groundEval(a, fuel)
		if args[i] == nil {
			return nil
		}
		if args[i] != a {
			changed = true
		}
	}
	if !changed {
		return t
	}
	if t.Op == "constarr" {
		return ConstArr(t.Sort, args[0])
	}
	return App(t.Op, t.Sort, args...)
}
