package main

import (
	"fmt"
	"strings"
)

// SX is an s-expression: either an atom or a list.
type SX struct {
	Atom string
	List []*SX
	IsL  bool
}

func (s *SX) String() string {
	if !s.IsL {
		return s.Atom
	}
	var b strings.Builder
	b.WriteByte('(')
	for i, c := range s.List {
		if i > 0 {
			b.WriteByte(' ')
		}
		b.WriteString(c.String())
	}
	b.WriteByte(')')
	return b.String()
}

func (s *SX) Head() string {
	if s.IsL && len(s.List) > 0 && !s.List[0].IsL {
		return s.List[0].Atom
	}
	return ""
}

// ParseSX parses all top-level s-expressions in src. ';' starts a comment.
func ParseSX(src string) ([]*SX, error) {
	p := &sxParser{src: src}
	var out []*SX
	for {
		p.skip()
		if p.pos >= len(p.src) {
			return out, nil
		}
		e, err := p.parse()
		if err != nil {
			return nil, err
		}
		out = append(out, e)
	}
}

type sxParser struct {
	src string
	pos int
}

func (p *sxParser) skip() {
	for p.pos < len(p.src) {
		c := p.src[p.pos]
		if c == ';' {
			for p.pos < len(p.src) && p.src[p.pos] != '\n' {
				p.pos++
			}
		} else if c == ' ' || c == '\t' || c == '\n' || c == '\r' {
			p.pos++
		} else {
			return
		}
	}
}

func (p *sxParser) parse() (*SX, error) {
	p.skip()
	if p.pos >= len(p.src) {
		return nil, fmt.Errorf("unexpected end of input")
	}
	c := p.src[p.pos]
	if c == '(' {
		p.pos++
		l := &SX{IsL: true}
		for {
			p.skip()
			if p.pos >= len(p.src) {
				return nil, fmt.Errorf("unclosed ( ")
			}
			if p.src[p.pos] == ')' {
				p.pos++
				return l, nil
			}
			e, err := p.parse()
			if err != nil {
				return nil, err
			}
			l.List = append(l.List, e)
		}
	}
	if c == ')' {
		return nil, fmt.Errorf("unexpected ) at %d", p.pos)
	}
	start := p.pos
	if c == '"' {
		p.pos++
		for p.pos < len(p.src) && p.src[p.pos] != '"' {
			p.pos++
		}
		p.pos++
		return &SX{Atom: p.src[start:p.pos]}, nil
	}
	if c == '|' {
		p.pos++
		for p.pos < len(p.src) && p.src[p.pos] != '|' {
			p.pos++
		}
		p.pos++
		return &SX{Atom: p.src[start:p.pos]}, nil
	}
	for p.pos < len(p.src) {
		c := p.src[p.pos]
		if c == ' ' || c == '\t' || c == '\n' || c == '\r' || c == '(' || c == ')' || c == ';' {
			break
		}
		p.pos++
	}
	return &SX{Atom: p.src[start:p.pos]}, nil
}
