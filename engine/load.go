package main

import (
	"fmt"
	"go/ast"
	"go/token"
	"go/types"
	"os"
	"strings"

	"golang.org/x/tools/go/packages"
)

type Program struct {
	Fset     *token.FileSet
	Pkgs     []*packages.Package
	ByPath   map[string]*packages.Package
	Funcs    map[string]*FuncInfo // key -> function
	Contracts *ContractSet
	Lib      *SpecLib
	RepoDir  string
}

type FuncInfo struct {
	Key  string
	Decl *ast.FuncDecl
	Lit  *ast.FuncLit
	Body *ast.BlockStmt
	Obj  *types.Func
	Sig  *types.Signature
	Pkg  *packages.Package
	Recv *types.Var
}

func funcKey(fn *types.Func) string {
	sig := fn.Type().(*types.Signature)
	pkg := ""
	if fn.Pkg() != nil {
		pkg = fn.Pkg().Path()
	}
	if r := sig.Recv(); r != nil {
		t := r.Type()
		if p, ok := t.(*types.Pointer); ok {
			t = p.Elem()
		}
		if n, ok := t.(*types.Named); ok {
			p := pkg
			if n.Obj().Pkg() != nil {
				p = n.Obj().Pkg().Path()
			}
			return p + "." + n.Obj().Name() + "." + fn.Name()
		}
		return pkg + ".?." + fn.Name()
	}
	return pkg + "." + fn.Name()
}

func LoadProgram(repo string, patterns ...string) (*Program, error) {
	if len(patterns) == 0 {
		patterns = []string{"./..."}
	}
	fset := token.NewFileSet()
	cfg := &packages.Config{
		Mode: packages.NeedName | packages.NeedFiles | packages.NeedCompiledGoFiles | packages.NeedImports |
			packages.NeedTypes | packages.NeedSyntax | packages.NeedTypesInfo | packages.NeedTypesSizes,
		Dir:        repo,
		Fset:       fset,
		BuildFlags: []string{"-tags=verif"},
		Env:        append(os.Environ(), "GOFLAGS=-mod=mod", "GOPROXY=off", "GOSUMDB=off", "GOTOOLCHAIN=local"),
		ParseFile: func(fset *token.FileSet, filename string, src []byte) (*ast.File, error) {
			return parseWithComments(fset, filename, src)
		},
	}
	pkgs, err := packages.Load(cfg, patterns...)
	if err != nil {
		return nil, err
	}
	p := &Program{Fset: fset, Pkgs: pkgs, ByPath: map[string]*packages.Package{}, Funcs: map[string]*FuncInfo{}, RepoDir: repo}
	var errs []string
	for _, pkg := range pkgs {
		for _, e := range pkg.Errors {
			errs = append(errs, e.Error())
		}
		p.ByPath[pkg.PkgPath] = pkg
	}
	if len(errs) > 0 {
		return nil, fmt.Errorf("load errors:\n%s", strings.Join(errs, "\n"))
	}
	p.Contracts = NewContractSet()
	for _, pkg := range pkgs {
		for _, f := range pkg.Syntax {
			fname := fset.Position(f.Pos()).Filename
			if strings.HasSuffix(fname, "_test.go") {
				continue
			}
			for _, d := range f.Decls {
				fd, ok := d.(*ast.FuncDecl)
				if !ok || fd.Body == nil {
					continue
				}
				obj, _ := pkg.TypesInfo.Defs[fd.Name].(*types.Func)
				if obj == nil {
					continue
				}
				fi := &FuncInfo{Key: funcKey(obj), Decl: fd, Body: fd.Body, Obj: obj, Sig: obj.Type().(*types.Signature), Pkg: pkg}
				fi.Recv = fi.Sig.Recv()
				p.Funcs[fi.Key] = fi
			}
			// command closures: cli.Command{Name: "x", Action: func(...) error {...}} become functions "<pkg>.cmd:x";
			// other function literals assigned to a named local variable v inside function F become "<pkg>.F.lit:v"
			ast.Inspect(f, func(n ast.Node) bool {
				cl, ok := n.(*ast.CompositeLit)
				if !ok {
					return true
				}
				name := ""
				var act *ast.FuncLit
				for _, el := range cl.Elts {
					kv, ok := el.(*ast.KeyValueExpr)
					if !ok {
						continue
					}
					k, _ := kv.Key.(*ast.Ident)
					if k == nil {
						continue
					}
					if k.Name == "Name" {
						if bl, ok := kv.Value.(*ast.BasicLit); ok {
							name = strings.Trim(bl.Value, "\"")
						}
					}
					if k.Name == "Action" {
						act, _ = kv.Value.(*ast.FuncLit)
					}
				}
				if name != "" && act != nil {
					sig, _ := pkg.TypesInfo.TypeOf(act).(*types.Signature)
					if sig != nil {
						key := pkg.PkgPath + ".cmd:" + name
						p.Funcs[key] = &FuncInfo{Key: key, Lit: act, Body: act.Body, Sig: sig, Pkg: pkg}
					}
				}
				return true
			})
			for _, d := range f.Decls {
				fd, ok := d.(*ast.FuncDecl)
				if !ok || fd.Body == nil {
					continue
				}
				goN := 0
				ast.Inspect(fd.Body, func(n ast.Node) bool {
					if g, ok := n.(*ast.GoStmt); ok {
						if lit, ok := g.Call.Fun.(*ast.FuncLit); ok {
							goN++
							sig, _ := pkg.TypesInfo.TypeOf(lit).(*types.Signature)
							if sig != nil {
								key := fmt.Sprintf("%s.%s.go:%d", pkg.PkgPath, fd.Name.Name, goN)
								p.Funcs[key] = &FuncInfo{Key: key, Lit: lit, Body: lit.Body, Sig: sig, Pkg: pkg}
							}
						}
					}
					return true
				})
				ast.Inspect(fd.Body, func(n ast.Node) bool {
					as, ok := n.(*ast.AssignStmt)
					if !ok || len(as.Lhs) != 1 || len(as.Rhs) != 1 {
						return true
					}
					id, _ := as.Lhs[0].(*ast.Ident)
					lit, _ := as.Rhs[0].(*ast.FuncLit)
					if id == nil || lit == nil {
						return true
					}
					sig, _ := pkg.TypesInfo.TypeOf(lit).(*types.Signature)
					if sig != nil {
						key := pkg.PkgPath + "." + fd.Name.Name + ".lit:" + id.Name
						p.Funcs[key] = &FuncInfo{Key: key, Lit: lit, Body: lit.Body, Sig: sig, Pkg: pkg}
					}
					return true
				})
			}
			// contracts
			var lines []rawLine
			for _, cg := range f.Comments {
				for _, c := range cg.List {
					if strings.HasPrefix(c.Text, "//@") {
						lines = append(lines, rawLine{strings.TrimPrefix(c.Text, "//@"), fset.Position(c.Pos()).Line})
					}
				}
			}
			if len(lines) > 0 {
				rel := strings.TrimPrefix(fname, repo+"/")
				if err := p.Contracts.ParseContractLines(lines, pkg.PkgPath, rel); err != nil {
					return nil, err
				}
			}
		}
	}
	if err := p.Contracts.LinkImplements(); err != nil {
		return nil, err
	}
	return p, nil
}
