package main

import (
	"fmt"
	"sort"
	"strings"
)

// Obligation is one verification condition: Assumes ⊢ Goal.
type Obligation struct {
	Name    string
	Prop    []string // property ids it serves
	Func    string   // function under contract (or "spec" for lemmas)
	Kind    string   // post, pre, inv-init, inv-step, bounds, lemma, …
	Mode    string   // "A", "H" or ""
	Assumes []*Term
	Goal    *Term
	Reveal  map[string]bool
	Lemmas  []string
	Canary  bool // must NOT be provable (vacuity check)
	Probe   bool // canary whose goal is the negation of a discharged obligation
	Timeout int  // seconds; 0 = default
	Pos     string
	Static  *bool // decided without solver (type facts etc.)
	Note    string
	Group   string // pieces of one split postcondition share a group: after two failed pieces the rest are not attempted
	Slice   int  // 0: cone of influence ignoring hub variables, 1: plain cone of influence, 2: every assumption
	NoSlice bool // use every assumption (second attempt: infeasible paths are refuted by facts unrelated to the goal)
	fullAssumes []*Term
	// results
	Res *SolveResult
}

// Script renders the SMT-LIB script for the obligation.
// style: "z3" or "cvc5" (cvc5: no lambdas, needs set-logic ALL)
func (lib *SpecLib) Script(o *Obligation, style string, wantModel bool) string {
	var b strings.Builder
	if style == "cvc5" {
		if wantModel {
			b.WriteString("(set-option :produce-models true)\n")
		}
		b.WriteString("(set-logic ALL)\n")
	} else {
		if wantModel {
			b.WriteString("(set-option :produce-models true)\n")
		}
	}
	if o.fullAssumes == nil {
		o.fullAssumes = o.Assumes
	}
	switch {
	case o.NoSlice || o.Slice >= 2:
		o.Assumes = o.fullAssumes
	case o.Slice == 1:
		o.Assumes = coneOfInfluence(o.fullAssumes, o.Goal, false)
	default:
		o.Assumes = coneOfInfluence(o.fullAssumes, o.Goal, true)
	}
	roots := append([]*Term{}, o.Assumes...)
	roots = append(roots, o.Goal)
	reveal := map[string]bool{}
	for k := range o.Reveal {
		reveal[k] = true
	}
	var lemmaTerms []*Term
	seenL := map[string]bool{}
	for _, ln := range o.Lemmas {
		if seenL[ln] {
			continue
		}
		seenL[ln] = true
		l := lib.Lemmas[ln]
		if l == nil {
			panic("unknown lemma " + ln + " in obligation " + o.Name)
		}
		lemmaTerms = append(lemmaTerms, l.Stmt)
	}
	roots = append(roots, lemmaTerms...)

	// collect symbols transitively through revealed definitions
	si := newSymInfo()
	for _, r := range roots {
		si.walk(r, nil)
	}
	defined := map[string]*SpecFun{}
	for changed := true; changed; {
		changed = false
		for _, fn := range sortedKeys(si.funs) {
			f := lib.Funs[fn]
			if f == nil || f.Body == nil || defined[fn] != nil {
				continue
			}
			if reveal[fn] || f.Always {
				defined[fn] = f
				si.walk(f.Body, boundSet(f.Params))
				changed = true
			}
		}
	}
	for _, n := range lib.DatatypeOrder {
		if _, used := si.sorts[n]; !used {
			continue
		}
		fmt.Fprintf(&b, "(declare-datatypes ((%s 0)) (%s))\n", symName(n), lib.Datatypes[n])
	}
	for _, n := range sortedKeys(si.sorts) {
		if _, isDT := lib.Datatypes[n]; isDT {
			continue
		}
		fmt.Fprintf(&b, "(declare-sort %s 0)\n", symName(n))
	}
	for _, n := range sortedKeys(si.strs) {
		fmt.Fprintf(&b, "(declare-const %s Str)\n", symName("str$"+strlitName(n)))
	}
	if len(si.strs) > 1 {
		b.WriteString("(assert (distinct")
		for _, n := range sortedKeys(si.strs) {
			b.WriteString(" " + symName("str$"+strlitName(n)))
		}
		b.WriteString("))\n")
	}
	for _, n := range sortedKeys(si.vars) {
		v := si.vars[n]
		isParam := false
		for _, f := range defined {
			for _, p := range f.Params {
				if p == v {
					isParam = true
				}
			}
		}
		if isParam {
			continue
		}
		fmt.Fprintf(&b, "(declare-const %s %s)\n", symName(n), v.Sort)
	}
	// opaque functions
	for _, fn := range sortedKeys(si.funs) {
		if defined[fn] != nil {
			continue
		}
		if f := lib.Funs[fn]; f != nil && f.Builtin {
			continue
		}
		var args []*Sort
		var res *Sort
		if f := lib.Funs[fn]; f != nil {
			args, res = f.ArgS, f.Res
		} else {
			t := si.funs[fn]
			for _, a := range t.Args {
				args = append(args, a.Sort)
			}
			res = t.Sort
		}
		b.WriteString("(declare-fun " + symName(fn) + " (")
		for i, a := range args {
			if i > 0 {
				b.WriteByte(' ')
			}
			b.WriteString(a.String())
		}
		b.WriteString(") " + res.String() + ")\n")
	}
	// defined functions in dependency order
	var names []string
	for n := range defined {
		names = append(names, n)
	}
	sort.Strings(names)
	deps := map[string]map[string]bool{}
	for _, n := range names {
		d := map[string]bool{}
		s2 := newSymInfo()
		s2.walk(defined[n].Body, boundSet(defined[n].Params))
		for fn := range s2.funs {
			if defined[fn] != nil && fn != n {
				d[fn] = true
			}
		}
		deps[n] = d
	}
	emitted := map[string]bool{}
	for len(emitted) < len(names) {
		progress := false
		for _, n := range names {
			if emitted[n] {
				continue
			}
			ready := true
			for d := range deps[n] {
				if !emitted[d] {
					ready = false
				}
			}
			if !ready {
				continue
			}
			f := defined[n]
			kw := "define-fun"
			if f.Rec {
				kw = "define-fun-rec"
			}
			b.WriteString("(" + kw + " " + symName(n) + " (")
			for _, p := range f.Params {
				fmt.Fprintf(&b, "(%s %s)", symName(p.Name), p.Sort)
			}
			b.WriteString(") " + f.Res.String() + " ")
			printTerm(&b, f.Body, nil)
			b.WriteString(")\n")
			emitted[n] = true
			progress = true
		}
		if !progress {
			panic("cyclic spec definitions (mutual recursion unsupported): " + strings.Join(names, ","))
		}
	}
	for i, l := range lemmaTerms {
		_ = i
		b.WriteString("(assert ")
		printTerm(&b, l, nil)
		b.WriteString(")\n")
	}
	// shared subterm naming for assumptions/goal: use define-fun for big shared nodes
	names2 := shareNames(&b, append(append([]*Term{}, o.Assumes...), o.Goal))
	for _, a := range o.Assumes {
		if a.IsTrue() {
			continue
		}
		b.WriteString("(assert ")
		printTerm(&b, a, names2)
		b.WriteString(")\n")
	}
	b.WriteString("(assert (not ")
	printTerm(&b, o.Goal, names2)
	b.WriteString("))\n(check-sat)\n")
	if wantModel {
		b.WriteString("(get-model)\n")
	}
	return b.String()
}

func boundSet(ps []*Term) map[*Term]bool {
	m := map[*Term]bool{}
	for _, p := range ps {
		m[p] = true
	}
	return m
}

// shareNames emits define-fun for closed subterms that are shared and large, to keep scripts linear in DAG size.
func shareNames(b *strings.Builder, roots []*Term) map[*Term]string {
	cnt := map[*Term]int{}
	size := map[*Term]int{}
	closed := map[*Term]bool{}
	var order []*Term
	var walk func(t *Term, bound map[*Term]bool)
	var sz func(t *Term) int
	sz = func(t *Term) int {
		if s, ok := size[t]; ok {
			return s
		}
		s := 1
		for _, a := range t.Args {
			s += sz(a)
			if s > 1000000 {
				s = 1000000
			}
		}
		size[t] = s
		return s
	}
	var isClosed func(t *Term, bound map[*Term]bool) bool
	ccache := map[*Term]bool{}
	isClosed = func(t *Term, bound map[*Term]bool) bool {
		if r, ok := ccache[t]; ok {
			return r
		}
		r := true
		if t.Op == "var" && strings.Contains(t.Name, "!q") {
			r = false
		} else if t.Op == "var" && bound[t] {
			r = false
		} else {
			for _, a := range t.Args {
				if !isClosed(a, bound) {
					r = false
					break
				}
			}
		}
		ccache[t] = r
		return r
	}
	walk = func(t *Term, bound map[*Term]bool) {
		cnt[t]++
		if cnt[t] > 1 {
			return
		}
		nb := bound
		if len(t.Bound) > 0 {
			nb = map[*Term]bool{}
			for k := range bound {
				nb[k] = true
			}
			for _, v := range t.Bound {
				nb[v] = true
			}
		}
		for _, a := range t.Args {
			walk(a, nb)
		}
		closed[t] = isClosed(t, nb)
		order = append(order, t)
	}
	for _, r := range roots {
		walk(r, map[*Term]bool{})
	}
	names := map[*Term]string{}
	n := 0
	for _, t := range order {
		if cnt[t] > 1 && sz(t) >= 8 && closed[t] && len(t.Bound) == 0 && t.Op != "var" {
			// must not contain bound variables of any enclosing quantifier
			cache := map[*Term]bool{}
			if hasAnyBound(t, cache) {
				continue
			}
			n++
			name := fmt.Sprintf("sh!%d", n)
			b.WriteString("(define-fun " + name + " () " + t.Sort.String() + " ")
			printTerm(b, t, names)
			b.WriteString(")\n")
			names[t] = name
		}
	}
	return names
}

func hasAnyBound(t *Term, cache map[*Term]bool) bool {
	if r, ok := cache[t]; ok {
		return r
	}
	r := false
	if t.Op == "var" && (strings.Contains(t.Name, "!q") || strings.Contains(t.Name, "!b")) {
		r = true
	}
	if len(t.Bound) > 0 {
		r = true // don't share quantified formulas (keeps things simple)
	}
	if !r {
		for _, a := range t.Args {
			if hasAnyBound(a, cache) {
				r = true
				break
			}
		}
	}
	cache[t] = r
	return r
}

// coneOfInfluence keeps the assumptions that (transitively) share an uninterpreted constant with the goal.
// Dropping assumptions can only make an obligation harder to prove, never wrongly provable.
//
// With hubs set, variables that occur in more than a quarter of the assumptions (the loop counter, the big input array)
// do not link assumptions to the goal; an assumption over hub and goal variables only is kept.
func coneOfInfluence(assumes []*Term, goal *Term, hubs bool) []*Term {
	if len(assumes) < 12 {
		return assumes
	}
	varsOf := func(t *Term) map[*Term]bool {
		out := map[*Term]bool{}
		seen := map[*Term]bool{}
		var rec func(t *Term)
		rec = func(t *Term) {
			if seen[t] {
				return
			}
			seen[t] = true
			if t.Op == "var" && !strings.Contains(t.Name, "!q") {
				out[t] = true
			}
			for _, a := range t.Args {
				rec(a)
			}
			for _, p := range t.Pat {
				for _, a := range p {
					rec(a)
				}
			}
		}
		rec(t)
		return out
	}
	av := make([]map[*Term]bool, len(assumes))
	for i, a := range assumes {
		av[i] = varsOf(a)
	}
	rel := varsOf(goal)
	hub := map[*Term]bool{}
	if hubs && len(assumes) >= 40 {
		cnt := map[*Term]int{}
		for _, m := range av {
			for v := range m {
				cnt[v]++
			}
		}
		for v, c := range cnt {
			if c*4 > len(assumes) {
				hub[v] = true
			}
		}
	}
	keep := make([]bool, len(assumes))
	for changed := true; changed; {
		changed = false
		for i := range assumes {
			if keep[i] {
				continue
			}
			hit := len(av[i]) == 0
			onlyKnown := true
			for v := range av[i] {
				if rel[v] && !hub[v] {
					hit = true
					break
				}
				if !rel[v] && !hub[v] {
					onlyKnown = false
				}
			}
			if hit || (len(hub) > 0 && onlyKnown) {
				keep[i] = true
				changed = true
				for v := range av[i] {
					if !hub[v] {
						rel[v] = true
					}
				}
			}
		}
	}
	var out []*Term
	for i, a := range assumes {
		if keep[i] {
			out = append(out, a)
		}
	}
	return out
}
