package main

import (
	"fmt"
	"os"
	"path/filepath"
	"regexp"
	"sort"
	"strconv"
	"strings"
)

type Clause struct {
	Kind string // requires, ensures, invariant, assert, snap
	Mode string // "", "A", "H"
	Expr *CExpr
	Name string // let name / label / anchor
	Text string
	Line int
	Reveal []string // clause-level `using reveal f g`
	Lemmas []string // clause-level `using lemmas a b`
	Only   bool     // `using only …`: the function-level reveal/lemmas lists are not added
	Timeout int     // `using … timeout N`: per-obligation solver timeout in seconds
	Var    string   // snap: ghost name
}

type LoopSpec struct {
	Ordinal   int
	Invs      []*Clause
	Decreases *CExpr
	Lemmas    []string
	Reveal    []string
	Unroll    bool
	Havoc     []string // extra variables to havoc (normally inferred)
	Shapes    map[string]string
}

type Contract struct {
	Key      string
	Pkg      string
	Recv     string
	Name     string
	Extern   bool
	Params   []string
	Results  []string
	Requires []*Clause
	Ensures  []*Clause
	Lets     []*Clause
	Modifies []*CExpr
	Loops    map[int]*LoopSpec
	Returns  string
	Lemmas   []string
	Reveal   []string
	Field    string
	Modes    []string
	Props    []string
	Asserts  []*Clause // ghost asserts: Name = anchor
	Pure     bool
	Trusted  bool // body not verified (assumed contract on repo function) — reported
	File     string
	Line     int
	NoPanic  bool
	Opts     map[string]string
	Cases    []*Clause
	TypeFact bool     // contract about a struct type, decided from go/types
	Public   []string // fields that must be exactly the ,public ones
	First    string
	FieldTypes map[string]string
	Unreach  []string // function keys that must not be reachable through repository code
	When     []string  // declared domain restrictions (also in Requires)
	FDecreases *CExpr  // function-level termination measure (recursive calls, also through an implemented interface)
	Implements string  // key of the interface-method contract whose requires/ensures this method must satisfy
	Iface    bool      // contract of an interface method: assumed at dynamic calls, justified by its implementations
	Covers   []*Clause // conditions that must be satisfiable at some return (guards against vacuous success paths)
}

type ContractSet struct {
	ByKey map[string]*Contract
	Keys  []string
	Alias map[string]string
}

func NewContractSet() *ContractSet {
	return &ContractSet{ByKey: map[string]*Contract{}, Alias: map[string]string{}}
}

var clauseKW = map[string]bool{"func": true, "extern": true, "requires": true, "ensures": true, "invariant": true, "decreases": true,
	"modifies": true, "loop": true, "returns": true, "let": true, "lemmas": true, "reveal": true, "field": true, "modes": true,
	"property": true, "assert": true, "pure": true, "trusted": true, "package": true, "unroll": true, "nopanic": true, "opt": true, "havoc": true, "end": true, "shape": true, "cases": true, "ghost": true, "typefact": true, "public": true, "first": true, "unreachable": true, "fieldtype": true, "snap": true, "cover": true, "when": true, "adt": true, "box": true, "term": true, "implements": true, "interface": true}

var kwRe = regexp.MustCompile(`^([a-z]+)(\[[AH]\])?(@\S+)?(\s|$)`)

type rawLine struct {
	text string
	line int
}

// ParseContractLines parses a block of contract lines. defPkg is the package path for "func" headers.
func (cs *ContractSet) ParseContractLines(lines []rawLine, defPkg string, file string) error {
	// join continuation lines
	type stmt struct {
		kw, mode, anchor, rest string
		line                   int
	}
	var stmts []stmt
	for _, l := range lines {
		t := strings.TrimSpace(l.text)
		if t == "" || strings.HasPrefix(t, "#") {
			continue
		}
		if i := strings.Index(t, " // "); i >= 0 {
			t = strings.TrimSpace(t[:i])
		}
		m := kwRe.FindStringSubmatch(t)
		if m != nil && clauseKW[m[1]] {
			mode := strings.Trim(m[2], "[]")
			anchor := strings.TrimPrefix(m[3], "@")
			if strings.HasSuffix(anchor, "[A]") || strings.HasSuffix(anchor, "[H]") {
				mode = anchor[len(anchor)-2 : len(anchor)-1]
				anchor = anchor[:len(anchor)-3]
			}
			stmts = append(stmts, stmt{m[1], mode, anchor, strings.TrimSpace(t[len(m[0]):]), l.line})
		} else {
			if len(stmts) == 0 {
				return fmt.Errorf("%s:%d: continuation line without clause: %s", file, l.line, t)
			}
			stmts[len(stmts)-1].rest += " " + t
		}
	}
	var cur *Contract
	var curLoop *LoopSpec
	var curBox *boxDecl
	for _, s := range stmts {
		where := fmt.Sprintf("%s:%d", file, s.line)
		parse := func() (*CExpr, error) {
			e, err := ParseCExpr(s.rest)
			if err != nil {
				return nil, fmt.Errorf("%s: %v", where, err)
			}
			return e, nil
		}
		switch s.kw {
		case "package":
			// package alias = path
			parts := strings.SplitN(s.rest, "=", 2)
			if len(parts) != 2 {
				return fmt.Errorf("%s: bad package alias", where)
			}
			cs.Alias[strings.TrimSpace(parts[0])] = strings.TrimSpace(parts[1])
			continue
		case "ghost":
			// ghost <Type>.<field> <kind>
			fs := strings.Fields(s.rest)
			if len(fs) != 2 {
				return fmt.Errorf("%s: ghost <Type>.<field> <kind>", where)
			}
			name := fs[0]
			if k := strings.Index(name, "."); k >= 0 {
				if full, ok := cs.Alias[name[:k]]; ok {
					name = full + name[k:]
				}
			}
			li := strings.LastIndex(name, ".")
			ghostDecls[name[:li]] = append(ghostDecls[name[:li]], ghostDecl{name[li+1:], fs[1]})
			continue
		case "adt":
			// adt <InterfaceType> <Sort> <nilConstructor>: values of the interface type are values of an SMT datatype
			fs := strings.Fields(s.rest)
			if len(fs) != 3 {
				return fmt.Errorf("%s: adt <Type> <Sort> <nil constructor>", where)
			}
			name := fs[0]
			if !strings.Contains(name, ".") {
				name = defPkg + "." + name
			} else if k := strings.Index(name, "."); k >= 0 {
				if full, ok := cs.Alias[name[:k]]; ok {
					name = full + name[k:]
				}
			}
			adtOf[name] = &adtInfo{Sort: SNamed(fs[1]), Nil: fs[2]}
			cur, curLoop, curBox = nil, nil, nil
			continue
		case "box":
			// box <StructType>: how a pointer to this struct is seen once it is stored in an adt interface
			name := strings.TrimSpace(s.rest)
			if !strings.Contains(name, ".") {
				name = defPkg + "." + name
			}
			curBox = &boxDecl{Struct: name, File: file, Line: s.line}
			boxOf[name] = curBox
			cur, curLoop = nil, nil
			continue
		case "typefact":
			c := &Contract{Loops: map[int]*LoopSpec{}, File: file, Line: s.line, Pkg: defPkg, Opts: map[string]string{}, TypeFact: true, FieldTypes: map[string]string{}}
			c.Name = strings.TrimSpace(s.rest)
			c.Key = defPkg + ".type:" + c.Name
			cs.ByKey[c.Key] = c
			cs.Keys = append(cs.Keys, c.Key)
			cur = c
			curLoop = nil
			continue
		case "func", "extern":
			c := &Contract{Loops: map[int]*LoopSpec{}, File: file, Line: s.line, Extern: s.kw == "extern", Pkg: defPkg, Opts: map[string]string{}}
			if err := cs.parseHeader(c, s.rest, defPkg); err != nil {
				return fmt.Errorf("%s: %v", where, err)
			}
			if _, dup := cs.ByKey[c.Key]; dup {
				return fmt.Errorf("%s: duplicate contract for %s", where, c.Key)
			}
			cs.ByKey[c.Key] = c
			cs.Keys = append(cs.Keys, c.Key)
			cur = c
			curLoop = nil
			curBox = nil
			continue
		}
		if curBox != nil {
			e, err := parse()
			if err != nil {
				return err
			}
			switch s.kw {
			case "term":
				curBox.Term = e
			case "invariant":
				curBox.Inv = append(curBox.Inv, &Clause{Kind: "invariant", Expr: e, Text: s.rest, Line: s.line})
			default:
				return fmt.Errorf("%s: %s inside box", where, s.kw)
			}
			continue
		}
		if cur == nil {
			return fmt.Errorf("%s: clause outside contract", where)
		}
		switch s.kw {
		case "implements":
			name := strings.TrimSpace(s.rest)
			if k := strings.Index(name, "."); k >= 0 {
				if full, ok := cs.Alias[name[:k]]; ok {
					name = full + name[k:]
				}
			}
			cur.Implements = name
		case "interface":
			cur.Iface = true
		case "cover":
			e, err := parse()
			if err != nil {
				return err
			}
			cur.Covers = append(cur.Covers, &Clause{Kind: "cover", Mode: s.mode, Expr: e, Text: s.rest, Line: s.line})
		case "requires", "ensures", "when":
			e, err := parse()
			if err != nil {
				return err
			}
			cl := &Clause{Kind: s.kw, Mode: s.mode, Expr: e, Text: s.rest, Line: s.line}
			if s.kw == "when" {
				// declared domain restriction of an entry point: a precondition that no call site in the repository
				// discharges (the function is called by a library); reported as an assumption of every check using it
				cl.Kind = "requires"
				cur.Requires = append(cur.Requires, cl)
				cur.When = append(cur.When, s.rest)
			} else if s.kw == "requires" {
				cur.Requires = append(cur.Requires, cl)
			} else {
				cur.Ensures = append(cur.Ensures, cl)
			}
		case "invariant":
			if curLoop == nil {
				return fmt.Errorf("%s: invariant outside loop", where)
			}
			e, err := parse()
			if err != nil {
				return err
			}
			curLoop.Invs = append(curLoop.Invs, &Clause{Kind: "invariant", Mode: s.mode, Expr: e, Text: s.rest, Line: s.line})
		case "decreases":
			e, err := parse()
			if err != nil {
				return err
			}
			if curLoop != nil {
				curLoop.Decreases = e
			} else {
				cur.FDecreases = e
			}
		case "assert", "snap":
			body := s.rest
			var rev, lem []string
			only, tmo := false, 0
			if k := strings.Index(body, " using "); k >= 0 {
				us := strings.Fields(strings.ReplaceAll(body[k+7:], ",", " "))
				body = strings.TrimSpace(body[:k])
				mode := ""
				for _, u := range us {
					if u == "only" {
						only = true
						continue
					}
					if u == "reveal" || u == "lemmas" || u == "timeout" {
						mode = u
						continue
					}
					if mode == "timeout" {
						fmt.Sscanf(u, "%d", &tmo)
						continue
					}
					if mode == "reveal" {
						rev = append(rev, u)
					} else if mode == "lemmas" {
						lem = append(lem, u)
					}
				}
			}
			varName := ""
			if s.kw == "snap" {
				parts := strings.SplitN(body, "=", 2)
				if len(parts) != 2 {
					return fmt.Errorf("%s: snap@anchor name = expr", where)
				}
				varName = strings.TrimSpace(parts[0])
				body = strings.TrimSpace(parts[1])
			}
			e, err := ParseCExpr(body)
			if err != nil {
				return fmt.Errorf("%s: %v", where, err)
			}
			cur.Asserts = append(cur.Asserts, &Clause{Kind: s.kw, Mode: s.mode, Expr: e, Name: s.anchor, Text: body, Line: s.line, Reveal: rev, Lemmas: lem, Var: varName, Only: only, Timeout: tmo})
		case "modifies":
			for _, part := range splitTop(s.rest) {
				e, err := ParseCExpr(part)
				if err != nil {
					return fmt.Errorf("%s: %v", where, err)
				}
				cur.Modifies = append(cur.Modifies, e)
			}
		case "loop":
			n, err := strconv.Atoi(strings.Fields(s.rest)[0])
			if err != nil {
				return fmt.Errorf("%s: loop ordinal: %v", where, err)
			}
			curLoop = &LoopSpec{Ordinal: n}
			if strings.Contains(s.rest, "unroll") {
				curLoop.Unroll = true
			}
			cur.Loops[n] = curLoop
		case "end":
			curLoop = nil
		case "unroll":
			if curLoop != nil {
				curLoop.Unroll = true
			}
		case "havoc":
			if curLoop != nil {
				curLoop.Havoc = append(curLoop.Havoc, strings.Fields(strings.ReplaceAll(s.rest, ",", " "))...)
			}
		case "shape":
			fs := strings.Fields(s.rest)
			if len(fs) != 2 {
				return fmt.Errorf("%s: shape <path> <dims>", where)
			}
			if curLoop != nil {
				if curLoop.Shapes == nil {
					curLoop.Shapes = map[string]string{}
				}
				curLoop.Shapes[fs[0]] = fs[1]
			} else {
				cur.Opts["shape "+fs[0]] = fs[1]
			}
		case "cases":
			for _, part := range strings.Split(s.rest, "|") {
				if strings.Contains(part, "||") {
					return fmt.Errorf("%s: use | to separate cases", where)
				}
				e, err := ParseCExpr(strings.TrimSpace(part))
				if err != nil {
					return fmt.Errorf("%s: %v", where, err)
				}
				cur.Cases = append(cur.Cases, &Clause{Kind: "case", Expr: e, Text: strings.TrimSpace(part), Line: s.line})
			}
		case "public":
			cur.Public = append(cur.Public, strings.Fields(strings.ReplaceAll(s.rest, ",", " "))...)
		case "first":
			cur.First = strings.TrimSpace(s.rest)
		case "fieldtype":
			fs := strings.Fields(s.rest)
			if len(fs) == 2 {
				cur.FieldTypes[fs[0]] = fs[1]
			}
		case "unreachable":
			cur.Unreach = append(cur.Unreach, strings.Fields(strings.ReplaceAll(s.rest, ",", " "))...)
		case "returns":
			cur.Returns = s.rest
		case "let":
			parts := strings.SplitN(s.rest, "=", 2)
			if len(parts) != 2 {
				return fmt.Errorf("%s: bad let", where)
			}
			e, err := ParseCExpr(strings.TrimSpace(parts[1]))
			if err != nil {
				return fmt.Errorf("%s: %v", where, err)
			}
			cur.Lets = append(cur.Lets, &Clause{Kind: "let", Name: strings.TrimSpace(parts[0]), Expr: e, Line: s.line})
		case "lemmas":
			fs := strings.Fields(strings.ReplaceAll(s.rest, ",", " "))
			if curLoop != nil {
				curLoop.Lemmas = append(curLoop.Lemmas, fs...)
			} else {
				cur.Lemmas = append(cur.Lemmas, fs...)
			}
		case "reveal":
			fs := strings.Fields(strings.ReplaceAll(s.rest, ",", " "))
			if curLoop != nil {
				curLoop.Reveal = append(curLoop.Reveal, fs...)
			} else {
				cur.Reveal = append(cur.Reveal, fs...)
			}
		case "field":
			cur.Field = s.rest
		case "modes":
			cur.Modes = strings.Fields(s.rest)
		case "property":
			cur.Props = append(cur.Props, strings.Fields(strings.ReplaceAll(s.rest, ",", " "))...)
		case "pure":
			cur.Pure = true
		case "trusted":
			cur.Trusted = true
		case "nopanic":
			cur.NoPanic = true
		case "opt":
			parts := strings.SplitN(s.rest, "=", 2)
			if len(parts) == 2 {
				cur.Opts[strings.TrimSpace(parts[0])] = strings.TrimSpace(parts[1])
			} else {
				cur.Opts[strings.TrimSpace(s.rest)] = "true"
			}
		}
	}
	return nil
}

func splitTop(s string) []string {
	var out []string
	depth := 0
	start := 0
	for i, c := range s {
		switch c {
		case '(', '[':
			depth++
		case ')', ']':
			depth--
		case ',':
			if depth == 0 {
				out = append(out, strings.TrimSpace(s[start:i]))
				start = i + 1
			}
		}
	}
	if strings.TrimSpace(s[start:]) != "" {
		out = append(out, strings.TrimSpace(s[start:]))
	}
	return out
}

var hdrRecvRe = regexp.MustCompile(`^\(\s*(\*?)\s*([A-Za-z_][A-Za-z0-9_]*)\s*\)\s*([A-Za-z_][A-Za-z0-9_]*)(.*)$`)
var hdrExtRe = regexp.MustCompile(`^(\S+?)(\(.*\))?(\s+\S.*)?$`)

func (cs *ContractSet) parseHeader(c *Contract, rest string, defPkg string) error {
	rest = strings.TrimSpace(rest)
	if c.Extern {
		// extern <qualified.Name>(p1, p2) r1, r2
		i := strings.Index(rest, "(")
		name := rest
		params := ""
		results := ""
		if i >= 0 {
			name = rest[:i]
			j := strings.Index(rest[i:], ")")
			if j < 0 {
				return fmt.Errorf("bad extern header")
			}
			params = rest[i+1 : i+j]
			results = strings.TrimSpace(rest[i+j+1:])
		}
		name = strings.TrimSpace(name)
		// resolve alias: first path segment before first '.'
		if k := strings.Index(name, "."); k >= 0 {
			if full, ok := cs.Alias[name[:k]]; ok {
				name = full + name[k:]
			}
		}
		c.Key = name
		for _, p := range strings.Split(params, ",") {
			if p = strings.TrimSpace(p); p != "" {
				c.Params = append(c.Params, p)
			}
		}
		for _, r := range strings.Split(results, ",") {
			if r = strings.TrimSpace(r); r != "" {
				c.Results = append(c.Results, r)
			}
		}
		base := name
		if h := strings.Index(base, "#"); h >= 0 {
			base = base[:h]
		}
		li := strings.LastIndex(base, ".")
		c.Name = base[li+1:]
		return nil
	}
	if m := hdrRecvRe.FindStringSubmatch(rest); m != nil {
		c.Recv = m[2]
		c.Name = m[3]
		c.Key = defPkg + "." + c.Recv + "." + c.Name
		return nil
	}
	fs := strings.Fields(rest)
	if len(fs) == 0 {
		return fmt.Errorf("empty func header")
	}
	c.Name = fs[0]
	c.Key = defPkg + "." + c.Name
	if i := strings.LastIndex(c.Name, ":"); i >= 0 {
		c.Name = c.Name[i+1:]
	}
	return nil
}

// LoadAssumed loads /verif/assumed/*.ctr
func (cs *ContractSet) LoadAssumed(dir string) error {
	files, _ := filepath.Glob(filepath.Join(dir, "*.ctr"))
	sort.Strings(files)
	for _, f := range files {
		src, err := os.ReadFile(f)
		if err != nil {
			return err
		}
		var lines []rawLine
		for i, l := range strings.Split(string(src), "\n") {
			lines = append(lines, rawLine{l, i + 1})
		}
		if err := cs.ParseContractLines(lines, "", filepath.Base(f)); err != nil {
			return err
		}
	}
	return nil
}

type ghostDecl struct {
	Name string
	Kind string
}

var ghostDecls = map[string][]ghostDecl{}

func ghostKind(s string) *Kind {
	switch s {
	case "[]byte":
		return &Kind{K: "slice", Elem: &Kind{K: "int", Lo: "0", Hi: "255"}}
	case "[]int":
		return &Kind{K: "slice", Elem: &Kind{K: "int"}}
	case "int":
		return &Kind{K: "int"}
	case "bool":
		return &Kind{K: "bool"}
	case "string":
		return &Kind{K: "str"}
	case "obj":
		return &Kind{K: "obj", Name: "ghost"}
	case "err":
		return &Kind{K: "err"}
	}
	panic("unknown ghost kind " + s)
}


// adtInfo: values of an interface type are modelled as values of an SMT datatype (immutable heap nodes).
type adtInfo struct {
	Sort *Sort
	Nil  string
}

var adtOf = map[string]*adtInfo{}

// boxDecl: the datatype value a pointer to this struct denotes once stored in an adt interface, and the invariant
// of the struct that boxing must establish (and that a method with this receiver may assume).
type boxDecl struct {
	Struct string
	Term   *CExpr
	Inv    []*Clause
	File   string
	Line   int
}

var boxOf = map[string]*boxDecl{}

// LinkImplements copies the clauses of interface-method contracts into the contracts of their implementations.
func (cs *ContractSet) LinkImplements() error {
	for _, k := range cs.Keys {
		c := cs.ByKey[k]
		if c.Implements == "" {
			continue
		}
		ic := cs.ByKey[c.Implements]
		if ic == nil || !ic.Iface {
			return fmt.Errorf("%s:%d: implements %s: no interface contract with that key", c.File, c.Line, c.Implements)
		}
		c.Requires = append(append([]*Clause{}, ic.Requires...), c.Requires...)
		c.Ensures = append(append([]*Clause{}, ic.Ensures...), c.Ensures...)
		c.Modifies = append(append([]*CExpr{}, ic.Modifies...), c.Modifies...)
		c.Lets = append(append([]*Clause{}, ic.Lets...), c.Lets...)
		if c.FDecreases == nil {
			c.FDecreases = ic.FDecreases
		}
	}
	return nil
}
