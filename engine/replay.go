package main

import (
	"math/big"
	"bytes"
	"encoding/json"
	"fmt"
	"os"
	"os/exec"
	"path/filepath"
	"regexp"
	"strings"
	"time"
)

// replaySpec: which injected test replays failures of a property on the real code.
type replaySpec struct {
	Test    string // test function
	File    string // template under /verif/replay
	PkgDir  string // package directory relative to the repo
	FuncSub string // only for obligations whose function key contains this ("" = all)
	Race    bool   // thorough tier (or VERIF_HARNESS_RACE=1): run under Go's race detector; a reported data race is a failure
}

// replayRace: set by the thorough tier
var replayRace = os.Getenv("VERIF_HARNESS_RACE") != ""

var replays = map[string][]replaySpec{
	"C08": {{Test: "TestVerifReplayC08", File: "C08_test.go", PkgDir: "prover"}},
	"C10": {{Test: "TestVerifReplayC10", File: "C10_test.go", PkgDir: "prover"}},
	"C18": {{Test: "TestVerifReplayC18", File: "C18_test.go", PkgDir: "poseidon_tree"}},
	"C16": {{Test: "TestVerifReplayC16", File: "C16_test.go", PkgDir: "prover"}},
	"C03": {{Test: "TestVerifReplayC03", File: "PROVER_test.go", PkgDir: "prover"}},
	"C06": {{Test: "TestVerifReplayC06", File: "PROVER_test.go", PkgDir: "prover"}},
	"C04": {{Test: "TestVerifReplayC04", File: "KECCAK_test.go", PkgDir: "prover/keccak"}},
	"C05": {{Test: "TestVerifReplayC05", File: "POSEIDON_test.go", PkgDir: "prover/poseidon"}},
	"C19": {{Test: "TestVerifReplayC19", File: "CLI_test.go", PkgDir: "logging"}},
	"C01": {{Test: "TestVerifReplayC01", File: "PROVER_test.go", PkgDir: "prover"}},
	"C02": {{Test: "TestVerifReplayC02", File: "PROVER_test.go", PkgDir: "prover"}},
	"C09": {{Test: "TestVerifReplayC09", File: "SRV_test.go", PkgDir: "server"}},
	"C13": {{Test: "TestVerifReplayC13", File: "SRV_test.go", PkgDir: "server", Race: true}},
	"C14": {{Test: "TestVerifReplayC14", File: "SRV_test.go", PkgDir: "server"}, {Test: "TestVerifReplayC14cli", File: "CLI_test.go", PkgDir: "logging"}},
	"C20": {{Test: "TestVerifReplayC20", File: "SRV_test.go", PkgDir: "server"}},
	"C07": {{Test: "TestVerifReplayC07", File: "PROVER_test.go", PkgDir: "prover"}},
	"C11": {{Test: "TestVerifReplayC11", File: "PROVER_test.go", PkgDir: "prover"}},
	"C12": {{Test: "TestVerifReplayC12", File: "PROVER_test.go", PkgDir: "prover"}, {Test: "TestVerifReplayC12cli", File: "CLI_test.go", PkgDir: "logging"}},
	"C15": {{Test: "TestVerifReplayC15", File: "PROVER_test.go", PkgDir: "prover"}},
}

var harnessRuns = map[string]struct {
	failing, out string
	ran          bool
}{}

var modelRe = regexp.MustCompile(`\(define-fun\s+(\S+)\s+\(\)\s+Int\s+(\(-\s*)?([0-9]+)`)

func modelInts(model string) map[string]string {
	out := map[string]string{}
	for _, m := range modelRe.FindAllStringSubmatch(model, -1) {
		v := m[3]
		if m[2] != "" {
			v = "-" + v
		}
		out[m[1]] = v
	}
	return out
}

// runReplay runs the injected test against the real repository code. It returns the failing input line
// (JSON) if the violation was reproduced, and the raw test output.
func runReplay(repo, prop string, o *Obligation) (failing string, output string, ran bool) {
	specs := replays[prop]
	for _, rs := range specs {
		if rs.FuncSub != "" && o.Func != "" && !strings.Contains(o.Func, rs.FuncSub) {
			continue
		}
		// one run per harness and check: the sweep does not depend on which obligation failed (solver-model values are
		// taken from the first failed obligation that has a model)
		key := prop + "/" + rs.Test
		c, hit := harnessRuns[key]
		if !hit {
			c.failing, c.out, c.ran = runReplaySpec(repo, prop, rs, o)
			harnessRuns[key] = c
		}
		f, out, r := c.failing, c.out, c.ran
		output += out
		ran = ran || r
		if f != "" {
			return f, output, true
		}
	}
	if !ran && output == "" {
		output = fmt.Sprintf("no replay harness registered for %s", prop)
	}
	return "", output, ran
}

func runReplaySpec(repo, prop string, rs replaySpec, o *Obligation) (failing string, output string, ran bool) {
	{
		dir := filepath.Join(workDir, "replay-"+prop+"-"+rs.Test)
		os.MkdirAll(dir, 0o755)
		// private copies of go.mod/go.sum so that /repo is never modified
		for _, f := range []string{"go.mod", "go.sum"} {
			b, err := os.ReadFile(filepath.Join(repo, f))
			if err != nil {
				return "", err.Error(), false
			}
			os.WriteFile(filepath.Join(dir, f), b, 0o644)
		}
		src := filepath.Join(verifDir, "replay", rs.File)
		target := filepath.Join(repo, rs.PkgDir, "zz_verif_replay_test.go")
		ov, _ := json.Marshal(map[string]interface{}{"Replace": map[string]string{target: src}})
		ovFile := filepath.Join(dir, "overlay.json")
		os.WriteFile(ovFile, ov, 0o644)
		targs := []string{"test", "-modfile=" + filepath.Join(dir, "go.mod"), "-overlay=" + ovFile, "-vet=off", "-count=1"}
		wall := 360 * time.Second
		if rs.Race && replayRace {
			targs = append(targs, "-race", "-timeout", "900s")
			wall = 960 * time.Second
		} else {
			targs = append(targs, "-timeout", "300s")
		}
		targs = append(targs, "-v", "-run", "^"+rs.Test+"$", "./"+rs.PkgDir)
		cmd := exec.Command("go", targs...)
		cmd.Dir = repo
		model := "{}"
		if o.Res != nil && o.Res.Model != "" {
			b, _ := json.Marshal(modelInts(o.Res.Model))
			model = string(b)
		}
		cmd.Env = append(os.Environ(), "GOFLAGS=-mod=mod", "GOPROXY=off", "GOSUMDB=off", "GOTOOLCHAIN=local", "VERIF_REPLAY_MODEL="+model,
			"VERIF_REPLAY_OBLIGATION="+o.Name, "VERIF_REPLAY_MODFILE="+filepath.Join(dir, "go.mod"))
		var buf bytes.Buffer
		cmd.Stdout = &buf
		cmd.Stderr = &buf
		done := make(chan error, 1)
		go func() { done <- cmd.Run() }()
		select {
		case <-done:
		case <-time.After(wall):
			cmd.Process.Kill()
		}
		output = buf.String()
		if i := strings.Index(output, "WARNING: DATA RACE"); i >= 0 {
			rep := output[i:]
			if len(rep) > 2500 {
				rep = rep[:2500]
			}
			b, _ := json.Marshal(map[string]interface{}{"function": rs.Test, "error": "Go's race detector reports a data race while overlapping requests are served", "race_report": rep})
			return string(b), output, true
		}
		for _, l := range strings.Split(output, "\n") {
			if strings.HasPrefix(l, "REPLAY-FAIL ") {
				return strings.TrimPrefix(l, "REPLAY-FAIL "), output, true
			}
		}
		// a harness that did not get as far as its verdict (build failure, timeout) has not run
		return "", output, strings.Contains(output, "REPLAY-OK")
	}
}


// runHarness runs an injected in-package test (overlay, private go.mod copy) and returns its output.
func runHarness(repo, pkgDir, file, test string) (string, error) {
	dir := filepath.Join(workDir, "harness-"+test)
	os.MkdirAll(dir, 0o755)
	for _, f := range []string{"go.mod", "go.sum"} {
		b, err := os.ReadFile(filepath.Join(repo, f))
		if err != nil {
			return "", err
		}
		os.WriteFile(filepath.Join(dir, f), b, 0o644)
	}
	src := filepath.Join(verifDir, "replay", file)
	target := filepath.Join(repo, pkgDir, "zz_verif_replay_test.go")
	ov, _ := json.Marshal(map[string]interface{}{"Replace": map[string]string{target: src}})
	ovFile := filepath.Join(dir, "overlay.json")
	os.WriteFile(ovFile, ov, 0o644)
	cmd := exec.Command("go", "test", "-modfile="+filepath.Join(dir, "go.mod"), "-overlay="+ovFile, "-vet=off", "-count=1",
		"-timeout", "300s", "-v", "-run", "^"+test+"$", "./"+pkgDir)
	cmd.Dir = repo
	cmd.Env = append(os.Environ(), "GOFLAGS=-mod=mod", "GOPROXY=off", "GOSUMDB=off", "GOTOOLCHAIN=local")
	var buf bytes.Buffer
	cmd.Stdout = &buf
	cmd.Stderr = &buf
	err := cmd.Run()
	return buf.String(), err
}

// keccakVectorObligations: the specification's keccak.digest, evaluated by the concrete interpreter (concrete.go) on
// reference messages, must give the digests computed by golang.org/x/crypto/sha3 (validation of the FIPS-202
// transcription that C03/C04 are stated against). One statically decided obligation per vector.
func keccakVectorObligations(lib *SpecLib, repo string) ([]*Obligation, string) {
	out, err := runHarness(repo, "prover/keccak", "C04_vectors_test.go", "TestVerifVectorsC04")
	if err != nil {
		return nil, "reference vectors could not be produced: " + trunc(out, 300)
	}
	var obls []*Obligation
	for _, l := range strings.Split(out, "\n") {
		fs := strings.Fields(l)
		if len(fs) < 3 || fs[0] != "VECTOR" {
			continue
		}
		dom := int64(1)
		if fs[1] == "6" {
			dom = 6
		}
		msgHex, digHex := "", fs[len(fs)-1]
		if len(fs) == 4 {
			msgHex = fs[2]
		}
		msg := hexBytes(msgHex)
		got, err := keccakSpecDigest(lib, msg, dom)
		ok := err == nil && fmt.Sprintf("%x", got) == digHex
		note := fmt.Sprintf("specification gives %x, golang.org/x/crypto/sha3 gives %s", got, digHex)
		if err != nil {
			note = "specification could not be evaluated: " + err.Error()
		}
		b := ok
		obls = append(obls, &Obligation{Name: fmt.Sprintf("spec-vector/keccak.digest(dom=%d,len=%d)", dom, len(msg)), Func: "spec:05_keccak.smt2",
			Kind: "spec-vector", Goal: BoolLit(ok), Static: &b, Note: note})
	}
	if len(obls) == 0 {
		return nil, "the reference harness printed no vectors: " + trunc(out, 300)
	}
	return obls, ""
}

// poseidonVectorObligations: the Poseidon specification evaluated over the repository's run-time tables must agree
// with github.com/iden3/go-iden3-crypto on reference inputs (the tables are abstract constants in the proofs of C05).
func poseidonVectorObligations(lib *SpecLib, repo string) ([]*Obligation, string) {
	out, err := runHarness(repo, "prover/poseidon", "C05_vectors_test.go", "TestVerifVectorsC05")
	if err != nil {
		return nil, "reference vectors could not be produced: " + trunc(out, 300)
	}
	ce := newConcreteEval(lib)
	tabs := map[string]map[string]map[string]*cval{}
	type vec struct{ args []*big.Int; want *big.Int }
	var vecs []vec
	for _, l := range strings.Split(out, "\n") {
		fs := strings.Fields(l)
		if len(fs) == 0 {
			continue
		}
		bi := func(s string) *big.Int { v, _ := new(big.Int).SetString(s, 10); return v }
		switch fs[0] {
		case "TABLE":
			if tabs[fs[1]] == nil {
				tabs[fs[1]] = map[string]map[string]*cval{}
			}
			if tabs[fs[1]][fs[2]] == nil {
				tabs[fs[1]][fs[2]] = map[string]*cval{}
			}
			tabs[fs[1]][fs[2]][fs[3]] = cInt(bi(fs[4]))
		case "HASH1":
			vecs = append(vecs, vec{[]*big.Int{bi(fs[1])}, bi(fs[2])})
		case "HASH2":
			vecs = append(vecs, vec{[]*big.Int{bi(fs[1]), bi(fs[2])}, bi(fs[3])})
		}
	}
	for name, rows := range tabs {
		outer := map[string]*cval{}
		for i, row := range rows {
			outer[i] = &cval{k: 'a', arr: &carr{m: row}}
		}
		ce.consts[name] = &cval{k: 'a', arr: &carr{m: outer}}
	}
	var obls []*Obligation
	for _, v := range vecs {
		name := "poseidon.hash2"
		var args []*cval
		for _, a := range v.args {
			args = append(args, cInt(a))
		}
		if len(v.args) == 1 {
			name = "poseidon.hash1"
		}
		var got *big.Int
		var evalErr error
		func() {
			defer func() {
				if r := recover(); r != nil {
					evalErr = fmt.Errorf("%v", r)
				}
			}()
			got = ce.call(name, args).i
		}()
		ok := evalErr == nil && got.Cmp(v.want) == 0
		note := fmt.Sprintf("specification over the repository's tables gives %v, iden3 gives %v", got, v.want)
		if evalErr != nil {
			note = "specification could not be evaluated: " + evalErr.Error()
		}
		b := ok
		obls = append(obls, &Obligation{Name: fmt.Sprintf("spec-vector/%s(%v)", name, v.args), Func: "spec:02_poseidon.smt2",
			Kind: "spec-vector", Goal: BoolLit(ok), Static: &b, Note: note})
	}
	if len(obls) == 0 {
		return nil, "the reference harness printed no vectors: " + trunc(out, 300)
	}
	return obls, ""
}

// inputHashLinkObligations: for parameter sets printed by the real ComputeInputHash* helpers, the circuit-side
// specification (bit-level packing, keccak.digest, big-endian recomposition, reduction mod r) must give the same
// input hash. This links the byte-level specification C08 is proved against with the bit-level one of C03.
func inputHashLinkObligations(lib *SpecLib, repo string) ([]*Obligation, string) {
	out, err := runHarness(repo, "prover", "C08_vectors_test.go", "TestVerifVectorsC08")
	if err != nil {
		return nil, "reference vectors could not be produced: " + trunc(out, 300)
	}
	var obls []*Obligation
	bi := func(s string) *big.Int { v, _ := new(big.Int).SetString(s, 10); return v }
	for _, l := range strings.Split(out, "\n") {
		fs := strings.Fields(l)
		if len(fs) < 5 || (fs[0] != "INS" && fs[0] != "DEL") {
			continue
		}
		eq := -1
		for i, f := range fs {
			if f == "=" {
				eq = i
			}
		}
		if eq < 0 || eq+1 >= len(fs) {
			continue
		}
		want := bi(fs[eq+1])
		var got *big.Int
		var evalErr error
		func() {
			defer func() {
				if r := recover(); r != nil {
					evalErr = fmt.Errorf("%v", r)
				}
			}()
			ce := newConcreteEval(lib)
			var msg *cval
			var nbits int64
			if fs[0] == "INS" {
				var idc []*big.Int
				for _, f := range fs[4:eq] {
					idc = append(idc, bi(f))
				}
				msg = ce.call("pack.insBits", []*cval{cInt(bi(fs[1])), cInt(bi(fs[2])), cInt(bi(fs[3])), intArray(idc)})
				nbits = 544 + 256*int64(len(idc))
			} else {
				var dix []*big.Int
				for _, f := range fs[3:eq] {
					dix = append(dix, bi(f))
				}
				msg = ce.call("pack.delBits", []*cval{intArray(dix), cInt(bi(fs[1])), cInt(bi(fs[2])), cInt(big.NewInt(int64(len(dix))))})
				nbits = 512 + 32*int64(len(dix))
			}
			d := ce.call("keccak.digest", []*cval{msg, cInt(big.NewInt(nbits)), cInt(big.NewInt(1))})
			v := ce.call("pack.beval", []*cval{d, cInt(big.NewInt(256))})
			got = new(big.Int).Mod(v.i, fieldP)
		}()
		// the helper stores the unreduced 256-bit value; the circuit compares modulo r
		wantR := new(big.Int).Mod(want, fieldP)
		ok := evalErr == nil && got.Cmp(wantR) == 0
		note := fmt.Sprintf("circuit-side specification gives %v, the real helper gives %v (mod r: %v)", got, want, wantR)
		if evalErr != nil {
			note = "specification could not be evaluated: " + evalErr.Error()
		}
		b := ok
		obls = append(obls, &Obligation{Name: fmt.Sprintf("spec-vector/input-hash-link(%s)", strings.Join(fs[:eq], ",")), Func: "spec:04_pack.smt2",
			Kind: "spec-vector", Goal: BoolLit(ok), Static: &b, Note: note})
	}
	if len(obls) == 0 {
		return nil, "the reference harness printed no vectors: " + trunc(out, 300)
	}
	return obls, ""
}

func hexBytes(s string) []byte {
	var out []byte
	for i := 0; i+1 < len(s); i += 2 {
		var b byte
		fmt.Sscanf(s[i:i+2], "%02x", &b)
		out = append(out, b)
	}
	return out
}
