package main

import (
	"bytes"
	"encoding/json"
	"fmt"
	"os"
	"os/exec"
	"path/filepath"
	"regexp"
	"strings"
	"time"
)

// replaySpec: which injected test replays failures of a property on the real code.
type replaySpec struct {
	Test    string // test function
	File    string // template under /verif/replay
	PkgDir  string // package directory relative to the repo
	FuncSub string // only for obligations whose function key contains this ("" = all)
}

var replays = map[string][]replaySpec{
	"C08": {{Test: "TestVerifReplayC08", File: "C08_test.go", PkgDir: "prover"}},
	"C10": {{Test: "TestVerifReplayC10", File: "C10_test.go", PkgDir: "prover"}},
	"C18": {{Test: "TestVerifReplayC18", File: "C18_test.go", PkgDir: "poseidon_tree"}},
}

var modelRe = regexp.MustCompile(`\(define-fun\s+(\S+)\s+\(\)\s+Int\s+(\(-\s*)?([0-9]+)`)

func modelInts(model string) map[string]string {
	out := map[string]string{}
	for _, m := range modelRe.FindAllStringSubmatch(model, -1) {
		v := m[3]
		if m[2] != "" {
			v = "-" + v
		}
		out[m[1]] = v
	}
	return out
}

// runReplay runs the injected test against the real repository code. It returns the failing input line
// (JSON) if the violation was reproduced, and the raw test output.
func runReplay(repo, prop string, o *Obligation) (failing string, output string, ran bool) {
	specs := replays[prop]
	for _, rs := range specs {
		if rs.FuncSub != "" && !strings.Contains(o.Func, rs.FuncSub) {
			continue
		}
		dir := filepath.Join(workDir, "replay-"+prop)
		os.MkdirAll(dir, 0o755)
		// private copies of go.mod/go.sum so that /repo is never modified
		for _, f := range []string{"go.mod", "go.sum"} {
			b, err := os.ReadFile(filepath.Join(repo, f))
			if err != nil {
				return "", err.Error(), false
			}
			os.WriteFile(filepath.Join(dir, f), b, 0o644)
		}
		src := filepath.Join(verifDir, "replay", rs.File)
		target := filepath.Join(repo, rs.PkgDir, "zz_verif_replay_test.go")
		ov, _ := json.Marshal(map[string]interface{}{"Replace": map[string]string{target: src}})
		ovFile := filepath.Join(dir, "overlay.json")
		os.WriteFile(ovFile, ov, 0o644)
		cmd := exec.Command("go", "test", "-modfile="+filepath.Join(dir, "go.mod"), "-overlay="+ovFile, "-vet=off", "-count=1",
			"-timeout", "300s", "-v", "-run", "^"+rs.Test+"$", "./"+rs.PkgDir)
		cmd.Dir = repo
		model := "{}"
		if o.Res != nil && o.Res.Model != "" {
			b, _ := json.Marshal(modelInts(o.Res.Model))
			model = string(b)
		}
		cmd.Env = append(os.Environ(), "GOFLAGS=-mod=mod", "GOPROXY=off", "GOSUMDB=off", "GOTOOLCHAIN=local", "VERIF_REPLAY_MODEL="+model,
			"VERIF_REPLAY_OBLIGATION="+o.Name)
		var buf bytes.Buffer
		cmd.Stdout = &buf
		cmd.Stderr = &buf
		done := make(chan error, 1)
		go func() { done <- cmd.Run() }()
		select {
		case <-done:
		case <-time.After(360 * time.Second):
			cmd.Process.Kill()
		}
		output = buf.String()
		for _, l := range strings.Split(output, "\n") {
			if strings.HasPrefix(l, "REPLAY-FAIL ") {
				return strings.TrimPrefix(l, "REPLAY-FAIL "), output, true
			}
		}
		return "", output, true
	}
	return "", fmt.Sprintf("no replay harness registered for %s", prop), false
}
